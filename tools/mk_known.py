#!/usr/bin/env python3
"""(Re)generate known_findings.txt from the table below.  Run by hand when a finding is added; the
checks only ever read the file."""
import json, os

VERIF = os.path.dirname(os.path.dirname(os.path.abspath(__file__)))

HEADER = """# Known findings: genuine defects of the pinned tokio-rs/loom tree that are recorded rather than repaired.
# One `finding:` line per (property, finding); the JSON names the witness program (DSL of DESIGN.md Appendix A,
# re-run by ./check on every run), the failure kind, the exact outcome that fails (format of Spec/SC.lean:
# verdict, then thread:pc=result) and a signature class (checks/findings.py).  A check prints `KNOWN-FINDING:`
# for an entry iff its witness still fails on the implementation, and attributes other oracle failures to an
# entry only on programs where the implementation equals the Lean twin and the program matches the class.
# kinds: missing (reference outcome never explored) / forbidden (explored outcome the reference does not have) /
# missed_failure (reference has a failing execution, implementation reports none) / badverdict (the run fails
# with a verdict no reference execution has) / abort (the process dies).
# `fixed:` lines record repaired defects and suppress nothing.  This file is never written at run time.
"""

F = {
 "F1": dict(cls="dpor-atomic-single-slot",
   what="interleaving outcome never explored: a thread's own access overwrites the single last-access slot of an atomic, so its later store never races with another thread's earlier load (rt/atomic.rs set_last_access, rt/execution.rs schedule)",
   entries=[("C01", "missing", "cfg x=1 | T0: spawn 1; st 0 1 rlx; ld 0 rlx; join 1 | T1: ld 0 rlx; st 0 2 rlx",
             "ok 0:0=- 0:1=- 0:2=v:2 0:3=- 1:0=v:1 1:1=-"),
            ("C02", "missing", "cfg x=1 | T0: spawn 1; st 0 1 rlx; ld 0 rlx; join 1 | T1: ld 0 rlx; st 0 2 rlx",
             "ok 0:0=- 0:1=- 0:2=v:2 0:3=- 1:0=v:1 1:1=-", "rc11-strong"),
            ("C15", "bound-not-subset", "cfg x=1 | T0: spawn 1; ld 0 rlx; st 0 1 rlx; join 1; ld 0 rlx | T1: ld 0 rlx; st 0 10 rlx",
             "ok 0:0=- 0:1=v:10 0:2=- 0:3=- 0:4=v:1 1:0=v:0 1:1=-"),
            ("C19", "controls-not-subset", "cfg x=2 | T0: spawn 1; ld 0 rlx; stop; swap 0 1 ar; explore; join 1 | T1: ld 0 acq; st 0 2 rlx",
             "v:0 v:2 v:2", None, "cfg x=2 | T0: spawn 1; ld 0 rlx; swap 0 1 ar; join 1 | T1: ld 0 acq; st 0 2 rlx")]),
 "F2": dict(cls="fence-acquire-over-sync",
   what="fence(Acquire) acquires from every store seen by a thread that happens-before the fencing thread, not only from stores the fencing thread read: an RC11-allowed outcome is never explored (rt/atomic.rs fence_acq, FirstSeen::is_seen_by_current)",
   entries=[("C02", "missing", "cfg x=3 | T0: spawn 1; spawn 2; st 1 1 rlx; st 0 1 rel; join 1; join 2 | T1: ld 0 rlx; st 2 1 rel | T2: ld 2 acq; fence acq; ld 1 rlx",
             "ok 0:0=- 0:1=- 0:2=- 0:3=- 0:4=- 0:5=- 1:0=v:1 1:1=- 2:0=v:1 2:1=- 2:2=v:0", "rc11-strong")]),
 "F3": dict(cls="coherence-clock-order",
   what="a value older than one that happens-before the read is returned: reading an old store raises its modification-order clock past a newer store's (pointwise clock order is not the modification order, rt/atomic.rs apply_load_coherence)",
   entries=[("C03", "forbidden", "cfg x=1 | T0: spawn 1; st 0 1 rlx; st 0 2 rlx; join 1; ld 0 rlx | T1: st 0 3 rlx; ld 0 rlx",
             "ok 0:0=- 0:1=- 0:2=- 0:3=- 0:4=v:1 1:0=- 1:1=v:1", "rc11-doc")]),
 "F4": dict(cls="rmw-atomicity",
   what="lost update: a store is ordered between an RMW and the store it read (the later store is left unordered with the RMW's store, rt/atomic.rs State::rmw/store)",
   entries=[("C03", "forbidden", "cfg x=1 | T0: spawn 1; st 0 1 rlx; join 1; ld 0 rlx | T1: swap 0 2 rlx",
             "ok 0:0=- 0:1=- 0:2=- 0:3=v:2 1:0=v:0", "rc11-doc")]),
 "F16": dict(cls="seqcst-load-pruning",
   what="a SeqCst load is never offered a SeqCst store once a clock-newer SeqCst store exists, although SeqCst accesses are documented to behave as acquire/release: an RC11-allowed outcome is never explored (rt/atomic.rs match_load_to_stores)",
   entries=[("C02", "missing", "cfg x=2 | T0: spawn 1; st 0 1 sc; st 0 2 sc; st 1 1 rlx; join 1 | T1: ld 1 rlx; ld 0 sc",
             "ok 0:0=- 0:1=- 0:2=- 0:3=- 0:4=- 1:0=v:1 1:1=v:1", "rc11-strong")]),
 "F7": dict(cls="chan-unbranched-empty-test",
   what="try_recv / Receiver::drop test emptiness without a branch point and send/recv are independent classes, so the order of a send and the test is never explored (sync/mpsc.rs, rt/mpsc.rs)",
   entries=[(p, "missing", "cfg q=1 | T0: spawn 1; tryrecv 0; join 1; droprx 0 | T1: send 0 5",
             "ok 0:0=- 0:1=v:5 0:2=- 0:3=- 1:0=-") for p in ("C01", "C09")] +
           [("C09", "missed_failure", "cfg q=1 | T0: spawn 1; send 0 1; send 0 2; join 1 | T1: recv 0; droprx 0", "leak"),
            ("C10", "missed_failure", "cfg q=1 | T0: spawn 1; send 0 1; send 0 2; join 1 | T1: recv 0; droprx 0", "leak"),
            ("C01", "missed_failure", "cfg q=1 | T0: spawn 1; send 0 1; send 0 2; join 1 | T1: recv 0; droprx 0", "leak"),
            ("C04", "missed_failure", "cfg q=1 c=1 | T0: spawn 1; cwr 0 5; send 0 1; join 1 | T1: tryrecv 0; crd 0; droprx 0", "causality"),
            ("C05", "missed_failure", "cfg q=1 | T0: spawn 1; tryrecv 0; recv 0; join 1; droprx 0 | T1: send 0 1", "deadlock"),
            # a bounded run reaches the failing order (message left when the receiver is dropped) that the unbounded run
            # never explores
            ("C15", "bound-not-subset", "cfg q=1 | T0: spawn 1; spawn 2; recv 0; tryrecv 0; recv 0; droprx 0; join 1; join 2 | T1: send 0 1; send 0 2 | T2: send 0 3",
             "leakMsg"),
            # a run with a control call happens to reach the order the unrestricted run never explores
            ("C19", "controls-not-subset", "cfg q=1 | T0: spawn 1; recv 0; tryrecv 0; join 1; droprx 0 | T1: send 0 1; send 0 2; skip",
             "empty v:1", None, "cfg q=1 | T0: spawn 1; recv 0; tryrecv 0; join 1; droprx 0 | T1: send 0 1; send 0 2")]),
 "F9": dict(cls="try-acquire-blocked",
   what="a failing try_lock/try_read/try_write is explored only when the holder's critical section contains a scheduling point: neither the release of a lock nor a cell access is a branch point, so a section without atomics/locks inside is one indivisible step and the 'lock is held' state is never visible to a concurrent try (rt/mutex.rs, rt/rwlock.rs; same family as F7/F19/F24). (That a thread pending on a try was BLOCKED by the acquisition - false deadlocks - was repaired in b682426.)",
   entries=[(p, "missing", "cfg m=1 | T0: spawn 1; trylock 0; ifeq 1 v:1 1; unlock 0; join 1 | T1: lock 0; unlock 0",
             "ok 0:0=- 0:1=v:0 0:4=- 1:0=- 1:1=-") for p in ("C01", "C07")] +
           [("C15", "bound-not-subset", "cfg m=2 c=1 | T0: spawn 1; spawn 2; lock 1; unlock 1; join 1; join 2 | T1: lock 0; lock 1; unlock 1; unlock 0 | T2: trylock 0; ifeq 1 v:1 2; crd 0; unlock 0",
             "ok 0:0=- 0:1=- 0:2=- 0:3=- 0:4=- 0:5=- 1:0=- 1:1=- 1:2=- 1:3=- 2:0=v:0")] +
           [("C19", "controls-not-subset", "cfg m=2 c=1 | T0: spawn 1; lock 0; lock 1; unlock 1; unlock 0; skip; lock 0; lock 1; unlock 1; unlock 0; join 1 | T1: trylock 0; ifeq 1 v:1 2; crd 0; unlock 0; lock 0; cwr 0 1; unlock 0",
             "v:0", None, "cfg m=2 c=1 | T0: spawn 1; lock 0; lock 1; unlock 1; unlock 0; lock 0; lock 1; unlock 1; unlock 0; join 1 | T1: trylock 0; ifeq 1 v:1 2; crd 0; unlock 0; lock 0; cwr 0 1; unlock 0")]),
 "F10": dict(cls="arc-inspect-not-dependent",
   what="strong_count/get_mut still miss some orders with a concurrent drop: the Arc keeps ONE last-inspection slot, so a thread's own strong_count overwrites another thread's, and its following drop is compared with its own inspection only (rt/arc.rs last_ref_inspect; the same single-slot weakness as F1). (That a decrement did not depend on inspections at all was repaired in d0747ef.)",
   entries=[(p, "missing", "cfg  | T0: anew 0; aclone 0 1; spawn 1; acount 0; adrop 0; join 1 | T1: acount 1; adrop 1",
             "ok 0:0=- 0:1=- 0:2=- 0:3=v:1 0:4=v:1 0:5=- 1:0=v:2 1:1=v:0") for p in ("C01", "C11")] +
           [("C15", "bound-not-subset", "cfg  | T0: anew 0; aclone 0 1; aclone 0 2; spawn 1; spawn 2; adrop 0; join 1; join 2 | T1: acount 1; adrop 1 | T2: acount 2; adrop 2",
             "ok 0:0=- 0:1=- 0:2=- 0:3=- 0:4=- 0:5=v:0 0:6=- 0:7=- 1:0=v:1 1:1=v:1 2:0=v:2 2:1=v:0")]),
 "F25": dict(cls="atomic-mo-assertion",
   what="loom's own assertion `assert_ne!(mo_i, mo_j)` in match_load_to_stores / match_rmw_to_stores (marked 'TODO: this sometimes fails' in the source) fires on a valid program: two stores of one atomic end up with equal modification-order clocks; the model run fails although no execution of the program fails (rt/atomic.rs)",
   entries=[(p, "badverdict", "cfg x=1 | T0: spawn 1; spawn 2; for 0 4 ar; ld 0 sc; join 1; join 2 | T1: st 0 1 sc; ld 0 sc | T2: st 0 2 rel; fupd 0 add:1 rel acq",
             "internal:10", o) for p, o in (("C03", "rc11-doc"), ("C02", "rc11-strong"), ("C01", None))]),
 "F27": dict(cls="seqcst-fence-order-as-hb",
   what="a data race ordered only by the total order of SeqCst fences is never reported: every fence(SeqCst) joins and updates one shared clock (seq_cst_causality), so a later SeqCst fence acquires everything that happened before any earlier one, although in C11/RC11 the order of SeqCst fences is not part of happens-before (a relay through relaxed accesses of a third thread publishes nothing); fences are also not scheduling points, so the opposite order of two fences is not explored either (rt/atomic.rs fence_seqcst, rt/thread.rs Set::seq_cst_fence)",
   entries=[("C04", "missed_failure", "cfg x=2 c=1 | T0: spawn 1; spawn 2; cwr 0 5; fence sc; st 0 1 rlx; join 1; join 2 | T1: ld 0 rlx; ifeq 1 v:1 1; st 1 1 rlx | T2: ld 1 rlx; fence sc; ifeq 2 v:1 1; crd 0",
             "causality", "rc11-strong")]),
 "F29": dict(cls="seen-before-yield-prune",
   what="after a yield_now a thread never again reads a store it has seen (or, for the thread that created the atomic, the initial value) before the yield once a newer store exists - on EVERY location, not only the one its loop waits for: a C11-allowed stale read after the loop (flag seen, data still old) is never explored when the waiting thread created or touched the data location before yielding (rt/atomic.rs match_load_to_stores / FirstSeen::is_seen_before_yield; a deliberate progress heuristic, but C18 asks for every combination of values with which the loop can exit)",
   entries=[("C18", "missing", "cfg x=2 | T0: spawn 1; yield; ld 0 rlx; ifeq 1 v:1 1; ld 1 rlx; join 1 | T1: st 1 1 rlx; st 0 1 rlx",
             "ok 0:0=- 0:1=- 0:2=v:1 0:4=v:0 0:5=- 1:0=- 1:1=-", "rc11-strong")]),
 "F23": dict(cls="lazy-init-runs-twice",
   what="the initialiser of a lazy static runs twice in one execution when two threads race on the first access and the initialiser contains a scheduling point (Lazy::get initialises outside any lock and re-checks afterwards; the loser's value is dropped): side effects of the initialiser happen twice, the surviving instance may be the second one created (src/lazy_static.rs Lazy::get, acknowledged in a comment there)",
   entries=[("C17", "forbidden", "cfg x=1 | T0: spawn 1; lazy 0; join 1; ld 0 rlx | T1: ld 0 rlx; lazy 0",
             "ok 0:0=- 0:1=v:240 0:2=- 0:3=v:2 1:0=v:0 1:1=v:240")]),
 "F24": dict(cls="lazy-access-unbranched",
   what="the first access to a lazy static is not a branch point and its registration is not a dependence: which of two threads initialises it is explored only when other dependent operations happen to separate the accesses, so executions in which the other thread runs the initialiser (and what its side effects then look like to the first) are never explored (src/lazy_static.rs Lazy::get / try_get)",
   entries=[("C17", "missing", "cfg x=1 | T0: spawn 1; ld 0 rlx; lazy 0; join 1 | T1: lazy 0",
             "ok 0:0=- 0:1=v:1 0:2=v:140 0:3=- 1:0=v:140")]),
 "F22": dict(cls="lazy-static-dropped-at-main-exit",
   what="lazy statics are dropped when the main closure returns, not at the end of the iteration: a thread that is still running and touches one afterwards panics 'attempted to access lazy_static during shutdown' (model.rs Builder::check, rt/lazy_static.rs Set::drop)",
   entries=[("C17", "badverdict", "cfg | T0: spawn 1 | T1: lazy 0", "lazyShutdown")]),
 "F19": dict(cls="park-unbranched-token-test",
   what="thread::park tests the token without a branch point and unpark is not a branch point, so the order of an unpark and the token test is explored only when another branch point happens to separate them: outcomes / deadlocks of the other order are never explored (rt/mod.rs park, thread.rs unpark)",
   entries=[(p, "missed_failure", "cfg c=1 | T0: spawn 1; park; crd 0; park; join 1 | T1: unpark 0; unpark 0", "deadlock") for p in ("C01", "C05", "C08")]),
}

FIXED = [
 ("C06", "bde1841", "F11 the process aborted instead of unwinding to the caller of loom::model when an iteration failed while a spawned thread that had not started yet still owned a loom handle in its closure (let a2 = a.clone(); thread::spawn(move || use(a2)); assert!(false)): the closure was dropped with the scheduler, outside the execution; witness cfg unwind=1 | T0: anew 0; aclone 0 1; spawnown 1 1; panic | T1: adrop 1"),
 ("C06", "17a6006", "F28 a failing iteration aborted the process when a lazy static or a thread-local that was still alive held a loom handle (loom::sync::Arc) or had a destructor performing a loom operation: the values are owned by the Execution and were dropped with it outside the scheduler state while the panic unwound out of Builder::check (second panic 'cannot access Loom execution state from outside a Loom model'); witnesses cfg unwind=1 tlsdtor=1 x=1 | T0: tls 0; panic and the harness scenarios native:lazy_arc_panic, native:tls_arc_panic (first reported by the sub-agent that produced seed C06f as a side observation on the unmodified tree)"),
 ("C04", "c6f0cab", "F26 Notify::notify joined the notifier's causality into every thread whose pending operation named the Notify, also into another thread preempted inside its own notify(): a data race between two notifying threads was not reported on that path; witness cfg n=1 c=1 | T0: spawn 1; cwr 0 5; nnotify 0; join 1 | T1: nnotify 0; crd 0 on the path stored in gen/paths/f26_two_notifiers.json (found by the proof attempt Race2: kernel-checked witness Race2.Finding.missed_race)"),
 ("C08", "c6f0cab", "F26 a notifier acquired another notifier's causality (a notification orders something only for the waiter); same witness"),
 ("C07", "b682426", "F9a a thread pending on try_lock/try_read/try_write was blocked when another thread acquired the lock: false deadlock when the holder waits for it; witness cfg m=1 | T0: spawn 1; lock 0; join 1; unlock 0 | T1: trylock 0; ifeq 1 v:1 1; unlock 0"),
 ("C05", "b682426", "F9a false deadlock, same witness"),
 ("C01", "b682426", "F9a same witness (the reference's only verdict is ok)"),
 ("C08", "3b12fce", "F17 unpark handed the unparker's causality to the target at once, although nothing is ordered unless a park consumes the unpark: a data race was hidden; witness cfg c=1 | T0: spawn 1; cwr 0 1; unpark 1; join 1 | T1: crd 0"),
 ("C04", "3b12fce", "F17 missed data race, same witness"),
 ("C01", "3b12fce", "F17 missed failure, same witness"),
 ("C05", "3b12fce", "F17 with the race hidden the run went on to a deadlock the reference never reaches; witness cfg c=1 | T0: spawn 1; cwr 0 1; unpark 1; park; join 1 | T1: cwr 0 2"),
 ("C08", "bd8314b", "F15 a stored unpark made Condvar::wait return without a notification while the thread stayed queued as a waiter; witness cfg c=1 m=1 v=1 | T0: spawn 1; lock 0; cwr 0 1; unlock 0; cvone 0; join 1 | T1: unpark 1; lock 0; cvwait 0 0; crd 0; unlock 0"),
 ("C11", "d0747ef", "F10a strong_count never observed a concurrent drop: RefDec did not depend on the last Inspect; witness cfg  | T0: anew 0; aclone 0 1; spawn 1; acount 0; adrop 0; join 1 | T1: adrop 1 (missing outcome: acount 0 = 1)"),
 ("C01", "d0747ef", "F10a same witness (reference outcome never explored)"),
 ("C08", "e4710d6", "F5/F6/F18 unpark made ANY blocked thread runnable (a thread blocked in join / lock / recv hit an internal assertion or ran on) and the park token lived in State::Runnable so that blocking on a lock in between lost it (false deadlock); witnesses cfg  | T0: spawn 1; join 1 | T1: unpark 0 and cfg m=1 | T0: spawn 1; unpark 1; lock 0; unlock 0; join 1 | T1: lock 0; unlock 0; park"),
 ("C05", "e4710d6", "F5/F18 false deadlock / internal assertion through a misdirected unpark or a lost park token; same witnesses"),
 ("C01", "e4710d6", "F5/F18 same witnesses (reference outcome never reached)"),
 ("C07", "e4710d6", "F5 unpark of a thread blocked on a mutex made it runnable: 'expected to be able to acquire lock'; witness cfg m=1 | T0: spawn 1; lock 0; unpark 1; join 1; unlock 0 | T1: lock 0; unlock 0"),
 ("C17", "e931437", "F20 JoinHandle::join returned before the joined thread's thread-local destructors had run (after join, the effect of a destructor was not visible yet); witness cfg tlsdtor=1 x=1 | T0: spawn 1; ld 0 rlx; join 1; ld 0 rlx | T1: tls 0 (forbidden outcome: the load after the join reads 0)"),
 ("C08", "0b04412", "F18a a release (Mutex::release_lock, RwLock::unlock_threads, Channel::send) reset every thread whose stale `operation` named the object, discarding a pending park token -> false deadlock; witness cfg l=1 | T0: spawn 1; unpark 1; rd 0; unrd 0; join 1 | T1: rd 0; unrd 0; park"),
 ("C05", "0b04412", "F18a false deadlock: park token discarded by a release through a stale `operation`; witness cfg l=1 | T0: spawn 1; unpark 1; rd 0; unrd 0; join 1 | T1: rd 0; unrd 0; park"),
 ("C01", "0b04412", "F18a false deadlock (outcome of the reference never reached): park token discarded by a release through a stale `operation`; witness cfg l=1 | T0: spawn 1; unpark 1; rd 0; unrd 0; join 1 | T1: rd 0; unrd 0; park"),
 ("C20", "c00b711", "F8 process abort instead of the deadlock report: the deadlock panic unwinds block_on, whose loom Arc is dropped (Arc::drop -> ref_dec -> branch -> schedule with no active thread -> panic in a destructor); witness cfg x=1 f=1 | T0: blockon 0 1"),
 ("C06", "c00b711", "F8 process abort instead of a panic to the caller when a loom Arc is dropped while a deadlock panic unwinds; witnesses cfg x=1 f=1 | T0: blockon 0 1 and cfg unwind=1 n=1 | T0: anew 0; nwait 0"),
 ("C05", "c00b711", "F8 process abort instead of the deadlock report (block_on with nobody to wake it); witness cfg x=1 f=1 | T0: blockon 0 1"),
 ("C06", "6d9d832", "F13 process abort instead of a panic to the caller when an RwLock guard is alive at a deadlock (release_read_lock / release_write_lock without the no-active-thread guard); witness cfg unwind=1 l=1 n=1 | T0: wr 0; nwait 0"),
 ("C06", "8c1ee7c", "F12 process abort instead of a panic to the caller whenever an iteration fails while a loom::alloc::alloc block is live (Allocation::drop outside the execution context); witness cfg  | T0: alloc 0"),
 ("C10", "8c1ee7c", "F12 a leaked loom::alloc::alloc block aborted the process instead of the 'Allocation leaked' panic; witness cfg  | T0: alloc 0"),
 ("C13", "b67ec75", "F14 exploration not reproducible across processes: a thread with two thread-locals whose destructors perform loom operations ran them in HashMap (RandomState) order; witness cfg tlsdtor=1 x=1 | T0: spawn 1; ld 0 rlx; join 1; ld 0 rlx | T1: tls 0; tls 1"),
 ("C17", "b67ec75", "F14 thread-local destructors ran in HashMap (RandomState) order: the same model was explored differently in different processes; witness cfg tlsdtor=1 x=1 | T0: spawn 1; ld 0 rlx; join 1; ld 0 rlx | T1: tls 0; tls 1"),
]


def main():
    lines = [HEADER]
    for fid, f in F.items():
        for e in f["entries"]:
            prop, kind, witness, outcome = e[:4]
            d = {"property": prop, "id": fid, "class": f["cls"], "kind": kind, "witness": witness,
                 "outcome": outcome, "what": fid + " " + f["what"]}
            if len(e) > 4 and e[4]:
                d["oracle"] = e[4]
            if len(e) > 5:
                d["base"] = e[5]
            lines.append("finding: " + json.dumps(d))
    for prop, commit, what in FIXED:
        lines.append(f"fixed: property={prop} {commit} {what}")
    open(os.path.join(VERIF, "known_findings.txt"), "w").write("\n".join(lines) + "\n")

main()

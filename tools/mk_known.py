#!/usr/bin/env python3
"""(Re)generate known_findings.txt from the table below.  Run by hand when a finding is added; the
checks only ever read the file."""
import json, os

VERIF = os.path.dirname(os.path.dirname(os.path.abspath(__file__)))

HEADER = """# Known findings: genuine defects of the pinned tokio-rs/loom tree that are recorded rather than repaired.
# One `finding:` line per (property, finding); the JSON names the witness program (DSL of DESIGN.md Appendix A,
# re-run by ./check on every run), the failure kind, the exact outcome that fails (format of Spec/SC.lean:
# verdict, then thread:pc=result) and a signature class (checks/findings.py).  A check prints `KNOWN-FINDING:`
# for an entry iff its witness still fails on the implementation, and attributes other oracle failures to an
# entry only on programs where the implementation equals the Lean twin and the program matches the class.
# kinds: missing (reference outcome never explored) / forbidden (explored outcome the reference does not have) /
# missed_failure (reference has a failing execution, implementation reports none) / badverdict (the run fails
# with a verdict no reference execution has) / abort (the process dies).
# `fixed:` lines record repaired defects and suppress nothing.  This file is never written at run time.
"""

F = {
 "F1": dict(cls="dpor-atomic-single-slot",
   what="interleaving outcome never explored: a thread's own access overwrites the single last-access slot of an atomic, so its later store never races with another thread's earlier load (rt/atomic.rs set_last_access, rt/execution.rs schedule)",
   entries=[("C01", "missing", "cfg x=1 | T0: spawn 1; st 0 1 rlx; ld 0 rlx; join 1 | T1: ld 0 rlx; st 0 2 rlx",
             "ok 0:0=- 0:1=- 0:2=v:2 0:3=- 1:0=v:1 1:1=-")]),
 "F5": dict(cls="unpark-misdirected",
   what="unpark of a thread blocked in join/lock makes it runnable and loom's internal assertion fires (Thread::set_unparked wakes any blocked thread, rt/thread.rs)",
   entries=[(p, "badverdict", "cfg  | T0: spawn 1; join 1 | T1: unpark 0", "notNotified") for p in ("C01", "C05", "C08")] +
           [("C07", "badverdict", "cfg m=1 | T0: spawn 1; lock 0; unpark 1; join 1; unlock 0 | T1: lock 0; unlock 0", "expectedLock")]),
 "F7": dict(cls="chan-unbranched-empty-test",
   what="try_recv / Receiver::drop test emptiness without a branch point and send/recv are independent classes, so the order of a send and the test is never explored (sync/mpsc.rs, rt/mpsc.rs)",
   entries=[(p, "missing", "cfg q=1 | T0: spawn 1; tryrecv 0; join 1; droprx 0 | T1: send 0 5",
             "ok 0:0=- 0:1=v:5 0:2=- 0:3=- 1:0=-") for p in ("C01", "C09")] +
           [("C09", "missed_failure", "cfg q=1 | T0: spawn 1; send 0 1; send 0 2; join 1 | T1: recv 0; droprx 0", "leak"),
            ("C10", "missed_failure", "cfg q=1 | T0: spawn 1; send 0 1; send 0 2; join 1 | T1: recv 0; droprx 0", "leak"),
            ("C01", "missed_failure", "cfg q=1 | T0: spawn 1; send 0 1; send 0 2; join 1 | T1: recv 0; droprx 0", "leak")]),
 "F9": dict(cls="try-acquire-blocked",
   what="a thread pending on try_lock/try_read/try_write is blocked when another thread acquires the lock, so the failing try is never explored and a false deadlock can be reported (Mutex::post_acquire, RwLock::post_acquire_*)",
   entries=[(p, "missing", "cfg m=1 | T0: spawn 1; trylock 0; ifeq 1 v:1 1; unlock 0; join 1 | T1: lock 0; unlock 0",
             "ok 0:0=- 0:1=v:0 0:4=- 1:0=- 1:1=-") for p in ("C01", "C07")] +
           [(p, "badverdict", "cfg m=1 | T0: spawn 1; lock 0; join 1; unlock 0 | T1: trylock 0; ifeq 1 v:1 1; unlock 0", "deadlock") for p in ("C01", "C05", "C07")]),
 "F10": dict(cls="arc-inspect-not-dependent",
   what="strong_count/get_mut never observe a concurrent drop or clone: RefDec does not depend on an earlier Inspect (rt/arc.rs last_dependent_access)",
   entries=[(p, "missing", "cfg  | T0: anew 0; aclone 0 1; spawn 1; acount 0; adrop 0; join 1 | T1: adrop 1",
             "ok 0:0=- 0:1=- 0:2=- 0:3=v:1 0:4=v:1 0:5=- 1:0=v:0") for p in ("C01", "C11")]),
 "F15": dict(cls="condvar-stale-token",
   what="a pending park token makes Condvar::wait return without a notification (rt/condvar.rs wait parks through rt::park)",
   entries=[(p, "forbidden", "cfg c=1 m=1 v=1 | T0: spawn 1; lock 0; cwr 0 1; unlock 0; cvone 0; join 1 | T1: unpark 1; lock 0; cvwait 0 0; crd 0; unlock 0",
             "ok 0:0=- 0:1=- 0:2=- 0:3=- 0:4=- 0:5=- 1:0=- 1:1=- 1:2=- 1:3=v:0 1:4=-") for p in ("C08",)]),
 "F17": dict(cls="unpark-edge-without-park",
   what="unpark transfers the unparker's causality to the target at once, although nothing is ordered unless a park consumes the token: a data race is hidden (Thread::unpark, rt/thread.rs)",
   entries=[(p, "missed_failure", "cfg c=1 | T0: spawn 1; cwr 0 1; unpark 1; join 1 | T1: crd 0", "causality") for p in ("C01", "C04", "C08")]),
 "F18": dict(cls="unpark-token-cleared",
   what="a pending park token is cleared when another thread releases a lock the target used earlier: set_runnable on every thread whose stale `operation` names the lock (Mutex::release_lock, RwLock::unlock_threads, Channel::send) -> false deadlock",
   entries=[(p, "badverdict", "cfg m=1 | T0: spawn 1; unpark 1; lock 0; unlock 0; join 1 | T1: lock 0; unlock 0; park", "deadlock") for p in ("C01", "C05", "C08")]),
}

def main():
    lines = [HEADER]
    for fid, f in F.items():
        for prop, kind, witness, outcome in f["entries"]:
            lines.append("finding: " + json.dumps({"property": prop, "id": fid, "class": f["cls"], "kind": kind,
                                                    "witness": witness, "outcome": outcome, "what": fid + " " + f["what"]}))
    open(os.path.join(VERIF, "known_findings.txt"), "w").write("\n".join(lines) + "\n")

main()

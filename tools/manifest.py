#!/usr/bin/env python3
"""Regenerate /verif/MANIFEST.json from the table below (kept in one place so that it stays valid)."""
import json, os

VERIF = os.path.dirname(os.path.dirname(os.path.abspath(__file__)))
HOOK_COMMITS = ["19b08c3"]

COMMON_NOTE = ("Trusted: Lean 4.33 kernel (axioms propext, Classical.choice, Quot.sound only; audited per theorem "
               "on every run), the hand-written model lean/LoomVerif/Model/* (modelled, not verified; tied to /repo "
               "by the correspondence run of this check: implementation and Lean twin execute the same DSL programs "
               "and must produce identical records), the Rust harness, the verif-hooks dumps, the orchestrator. "
               "Not modelled: rt/scheduler.rs coroutines, unwinding mechanics, tracing, u16 clock overflow.")

CLAIMS = {
    "C12": dict(
        text=("Machine-checked proof (Lean 4) that the model of loom's atomic cell and API glue returns, for every "
              "type, every single-thread operation sequence and all operand values, exactly what a reference "
              "semantics of std atomics (BitVec arithmetic) returns (C12_refines_std, incl. ring wrap-around: "
              "Atomic.single_thread_latest), plus a five-way correspondence on every run: real loom, "
              "std::sync::atomic, Lean Std.run, Lean layered model, Lean full twin on the same operation lines."),
        ref="DESIGN.md §3 C12",
        technique="Lean 4 refinement proof (model ⊑ std semantics) + differential correspondence with std atomics"),
    "C14": dict(
        text=("Machine-checked proof (Lean 4) over the model of rt/path.rs for ALL paths and iterations: step_spec, "
              "frame lemmas for every Path API call, no_repeat (decision vectors pairwise distinct), dfs_order, "
              "terminates (≤ 8^cap iterations, strictly decreasing measure), count_is_paths; tied to the code by "
              "comparing every iteration of every exploration (paths, marks, clocks, objects) with the Lean explorer "
              "twin and by evaluating no-repeat/DFS order directly on the implementation's decision sequences."),
        ref="DESIGN.md §3 C14",
        technique="Lean 4 invariant/measure proofs over the DFS stack + exact explorer-twin correspondence"),
}

def main():
    props = [json.loads(l) for l in open(os.path.join(VERIF, "properties.jsonl"))]
    checks = []
    na = []
    for p in props:
        pid = p["id"]
        if pid in CLAIMS:
            c = CLAIMS[pid]
            checks.append({
                "property_id": pid,
                "quick_cmd": f"./check {pid} --tier quick",
                "thorough_cmd": f"./check {pid} --tier thorough",
                "evidence_file": f"/verif/evidence/{pid}.json",
                "replay_cmd_template": "./check replay {path}",
                "engine": "lean-twin",
                "level_claimed": {"category": "proof", "text": c["text"], "design_ref": c["ref"]},
                "level_note": c.get("note", COMMON_NOTE),
                "technique": c["technique"],
            })
        else:
            na.append({"property_id": pid, "reason": "not claimed yet: the check for this property is under "
                       "construction in this build session (DESIGN.md §10 order); the technique applies"})
    m = {
        "version": 1,
        "setup_cmd": "cd /verif && ./setup.sh",
        "hooks": {
            "guard": "cargo feature verif-hooks",
            "enable": "the harness crate /verif/harness depends on loom by path with features "
                      "[\"verif-hooks\", \"checkpoint\", \"futures\"]; every check rebuilds it from /repo's working tree",
            "baseline_off_cmd": "cd /repo && cargo test --workspace --no-fail-fast --offline",
            "source_commits": HOOK_COMMITS,
            "add_only": True,
        },
        "engines": [{"name": "lean-twin", "path": "/verif/lean", "serves_properties": sorted(CLAIMS),
                     "kind_free_text": "Lean 4 model + theorems (lake project), native driver lvdriver, Rust harness "
                                       "lv-harness, Python orchestrator ./check"}],
        "checks": checks,
        "not_applicable": na,
        "notes": "See DESIGN.md. known_findings.txt lists genuine defects of the pinned tree.",
    }
    json.dump(m, open(os.path.join(VERIF, "MANIFEST.json"), "w"), indent=1)

main()

#!/usr/bin/env python3
"""Regenerate /verif/MANIFEST.json from the table below (kept in one place so that it stays valid)."""
import json, os

VERIF = os.path.dirname(os.path.dirname(os.path.abspath(__file__)))
HOOK_COMMITS = ["19b08c3", "e4710d6", "c3a83be"]   # e4710d6 is a fix: commit that also adapts the guarded thread-table dump to the new fields

COMMON_NOTE = ("Trusted: Lean 4.33 kernel (axioms propext, Classical.choice, Quot.sound only; audited per theorem "
               "on every run), the hand-written model lean/LoomVerif/Model/* (modelled, not verified; tied to /repo "
               "by the correspondence run of this check: implementation and Lean twin execute the same DSL programs "
               "and must produce identical records), the Rust harness, the verif-hooks dumps, the orchestrator. "
               "The reference semantics Spec/SC.lean and Spec/RC11.lean are specifications; the SC enumerator used as oracle is "
               "PROVED sound and complete (Props/Oracle.lean: exploreV_sound/complete, audited by every check that uses "
               "it); the RC11 enumerator is trusted. "
               "Not modelled: rt/scheduler.rs coroutines, unwinding mechanics, tracing, u16 clock overflow.")

CLAIMS = {
    "C12": dict(
        text=("Machine-checked proof (Lean 4) that the model of loom's atomic cell and API glue returns, for every "
              "type, every single-thread operation sequence and all operand values, exactly what a reference "
              "semantics of std atomics (BitVec arithmetic) returns (C12_refines_std, incl. ring wrap-around: "
              "Atomic.single_thread_latest), plus a five-way correspondence on every run: real loom, "
              "std::sync::atomic, Lean Std.run, Lean layered model, Lean full twin on the same operation lines."),
        ref="DESIGN.md §3 C12",
        technique="Lean 4 refinement proof (model ⊑ std semantics) + differential correspondence with std atomics"),
    "C01": dict(
        text=("Lean 4 theorems for the local pillars of DPOR over the model of rt/path.rs + rt/execution.rs, for all "
              "paths/states: Path.backtrack_post(+bounded), Exec.schedule_race_post (dporMarks = fold of backtrack over "
              "racing threads), Exec.schedule_choice/result, the dependence tables and their validity against the "
              "reference interleaving semantics (commutation of load/load, send/recv, clone/drop; refutations for "
              "Inspect/RefDec and try_recv/send), DFS visits every marked alternative (C14). The full completeness "
              "statement is FALSE on the pinned tree: C01_full_false is a kernel-checked witness (F1). End-to-end "
              "inclusion 'reference outcomes ⊆ explored outcomes' is evaluated per program on exhaustive small "
              "families against the enumerated reference semantics (Spec/SC.lean), with exact explorer-twin "
              "correspondence; known findings F1 F5 F7 F9 F10 F17 F18."),
        ref="DESIGN.md §3 C01",
        technique="Lean 4 proofs of DPOR pillars + refutation witness; explorer-twin correspondence; reference-outcome enumeration"),
    "C02": dict(
        text=("Lean 4 theorems (all states): Sync.no_over_sync, Atomic.no_over_sync, Atomic.candidates_exact (a store is "
              "withheld from a load ONLY for the three coded reasons), Atomic.candidates_weak, ring_order/ring_guard "
              "(no eviction below 7 stores), Fence.acq_only_seen. Completeness against RC11 is partial/refuted on the "
              "pinned tree (F1 F2 F16); it is evaluated per litmus program: every outcome of the executable RC11(strong) "
              "enumerator must be explored; exact explorer-twin correspondence."),
        ref="DESIGN.md §3 C02",
        technique="Lean 4 local laws of the atomic model + RC11 outcome enumeration vs explored outcomes + twin correspondence"),
    "C03": dict(
        text=("Lean 4 theorems (all states): VV lattice, Sync.acquire_gets_release, Atomic.store_publishes, load_acquires, "
              "release_acquire_edge, release_sequence(+edge through RMWs), coherence_vv, load_coherence, store_coherence, "
              "rmw_reads_maximal, Fence.seqcst_total/chain/order. End-to-end RC11 consistency of every explored "
              "execution is evaluated: each implementation iteration's outcome must be an outcome of RC11(doc) "
              "(Spec/RC11.lean); decisions replayed on the twin. Known findings F3 (coherence) and F4 (RMW atomicity)."),
        ref="DESIGN.md §3 C03",
        technique="Lean 4 local laws (release/acquire, coherence, fences) + RC11 acceptance of every explored outcome + decision replay"),
    "C04": dict(
        text=("Lean 4 theorems: VV.ahead_none_iff_le, Cell.read/write_panics_iff, Atomic.track_panics_iff/track_ok_iff, "
              "Race.clock_sound: the detector panics iff a recorded conflicting access clock is not ≤ the current "
              "causality (decision logic, all states). 'Panic iff some execution races' is evaluated against RC11 "
              "(atomics, fences) and the reference interleaving semantics with textbook vector clocks (locks, channels, "
              "notify, park, join) on message-passing families, incl. read/write SECTIONS that stay open across other "
              "operations; decisions replayed on the twin. New: Cell.section_read/write_panics_iff, read_end_recorded; and "
              "the EXACTNESS theorem for the lock fragment (Props/Race.lean): Race.twin_panics_iff_reference_races (at a "
              "cell access the twin panics with causality k iff the reference step stops with race k, for every reachable "
              "related state), reported_race_is_real, no_missed_race_on_this_path (a completed run corresponds to a "
              "race-free reference execution) - proved by relating loom's clocks and textbook vector clocks through a "
              "common clock-system abstraction; and the same exactness for channels / Notify / park / condvars (Props/Race2.lean, "
              "under the run condition okRun), whose proof attempt found F26 (Notify::notify leaked causality to another "
              "notifier; repaired c6f0cab, Race2.Repaired.* and a stored-path witness replayed through a checkpoint). F17 "
              "repaired (3b12fce). The reference's own race detection (vector clocks of Spec/SC.lean) is proved to decide the "
              "declarative data race: Props/VCSound.lean race_reported_iff_unordered_conflict over executions with history "
              "and a declaratively defined happens-before (locks, rwlocks, Notify, park, channels, cells); composed with the "
              "exactness theorems in Props/RaceDecl.lean (twin report => unordered conflicting pair in a trace with the "
              "twin's own event log; completed run => every conflicting pair ordered). Known: F7, F27 "
              "(SeqCst fence order treated as happens-before hides a race)."),
        ref="DESIGN.md §3 C04",
        technique="Lean 4 decision-logic theorems for the race detector + race oracles (RC11, SC+vector clocks) + decision replay"),
    "C05": dict(
        text=("Lean 4: Exec.deadlock_iff_no_runnable (schedule reports deadlock iff no thread is runnable/yielded and not "
              "all have terminated), Exec.schedule_active_in_range, and - new - the SOUNDNESS half of the property as a "
              "theorem for the lock fragment (spawn, join, lock, unlock, try_lock, cells, ifeq): "
              "Deadlock.reported_deadlock_is_real / check_deadlock_is_real: whenever the twin's run (any path, any "
              "schedule) or Builder::check loop ends with a deadlock panic, the run corresponds to a reference execution "
              "that ends in a state where no thread is enabled and some thread has not finished; with the invariants "
              "blocked_means_disabled, runnable_means_enabled, tryLock_never_blocked (Props/Deadlock.lean, built on the "
              "refinement Props/Refine.lean). The completeness half and the other primitives are evaluated per program "
              "against the reference (families of lock-order inversions, lost notifications, recv without send, park "
              "without unpark with by-standers); every iteration replayed on the twin. Repaired on the way: F5/F6/F18 "
              "(e4710d6), F9a (b682426), F8 (c00b711); known: F7, F19."),
        ref="DESIGN.md §3 C05",
        technique="Lean 4 theorem on schedule's deadlock test + reference reachability oracle + decision replay"),
    "C07": dict(
        text=("Lean 4 one-step laws for every twin state: Lock.try_exact, RwLock.try_exact_read/write, exclusion "
              "(RwWF invariant over arbitrary step sequences), release_wakes, handover_hb (release … acquire ⇒ "
              "causality ≤, over arbitrary interleaved steps), one-step simulation of Spec/SC (sim_tryLock/lock/unlock, "
              "rwlock), Lock.never_blocks_try_acquirers / Lock.blocks_waiters (F9a repaired in b682426), and the "
              "run-level REFINEMENT Refine.run_is_reference_execution / step_simulation (Props/Refine.lean): every run of "
              "the twin over the lock fragment, for every path/schedule, is operation by operation an execution of the "
              "reference semantics (values and blocking). Evaluated: outcomes = reference outcomes on lock families with "
              "cells in the critical sections; decision replay. Known: F9 rest (a failing try needs a scheduling point "
              "inside the holder's section)."),
        ref="DESIGN.md §3 C07",
        technique="Lean 4 one-step refinement lemmas and hand-over invariant + reference outcomes + decision replay"),
    "C08": dict(
        text=("Lean 4 laws: Notify.flag_not_lost, Wait.notifier_hb, Notify.single_spurious, Join.never_spurious, "
              "Wait.only_after_notify + no_other_op_notifies (induction over all lock/wait operations), Park.token/unpark "
              "tables, Condvar.notify_one_fifo/notify_all/reacquires, Join.after_exit/hb/after_destructors; after the "
              "repairs of F5/F6/F18 (e4710d6), F15 (bd8314b), F17 (3b12fce), F18a (0b04412), F20 (e931437) the former "
              "refutation witnesses are theorems of the repaired behaviour: Park.unpark_wakes_only_parked, "
              "token_survives_blocking, unpark_then_park_never_blocks (over arbitrary interleaved stages), "
              "unpark_happens_before_park, Condvar.unpark_is_no_notification, Release.keeps_token. Run-level REFINEMENT "
              "for channels, Notify (with its spurious return), park/unpark and condvars: Refine2.run_is_reference_execution "
              "(Props/Refine2.lean). Evaluated against reference outcomes; decision replay. Known: F19."),
        ref="DESIGN.md §3 C08",
        technique="Lean 4 state-machine laws for notify/park/condvar/join + reference outcomes + decision replay"),
    "C09": dict(
        text=("Lean 4: Chan.counts (invariant), Chan.fifo over arbitrary send/recv runs, recv_blocks_iff_empty, "
              "try_recv_exact, send_hb_recv, leak_iff, one-step simulation of Spec/SC, and the run-level refinement "
              "Refine2.run_is_reference_execution (every twin run over channel programs is a reference execution). Evaluated "
              "against reference outcomes; decision replay. Known finding F7 (try_recv / Receiver::drop emptiness test "
              "unbranched)."),
        ref="DESIGN.md §3 C09",
        technique="Lean 4 invariants over channel histories + reference outcomes + decision replay"),
    "C10": dict(
        text=("Lean 4: Leak.check_iff/check_first (the end-of-iteration check fails iff some Arc count ≠ 0, some "
              "allocation undropped, some channel non-empty; first offender decides), Alloc.flag_is_dropped, "
              "C10_iteration, no stage reports a leak; and the run-level theorem for the resource fragment (Arc API, "
              "Track, raw allocations over the lock fragment): Refine3.leak_reported_iff_reference_leaks - at the end "
              "of every run the leak check fails iff the related reference state leaks, with the matching kind "
              "(Props/Refine3.lean). Evaluated: leak verdict iff reference end state leaks (incl. raw blocks at "
              "recycled addresses); F12 repaired (8c1ee7c); known finding F7."),
        ref="DESIGN.md §3 C10",
        technique="Lean 4 theorems on the leak check + reference leak oracle + decision replay"),
    "C11": dict(
        text=("Lean 4: ArcObj.refines_refcount_* (every Arc operation computes the reference counter's result), ArcInv "
              "preserved, drop_once, drops_hb_final, Dep.arc tables (a decrement depends on the later of the last "
              "decrement and the last inspection: F10a repaired in d0747ef; Dep.arc_single_inspect_slot = the remaining "
              "weakness F10), and the run-level REFINEMENT Refine3.run_is_reference_execution: every twin run over "
              "programs using the whole Arc API of the DSL is a reference execution with equal results of strong_count / "
              "get_mut / try_unwrap / ptr_eq / drop (Props/Refine3.lean). Evaluated against reference outcomes incl. "
              "payload drop counts; known finding F10 (rest)."),
        ref="DESIGN.md §3 C11",
        technique="Lean 4 refinement lemmas for the Arc object + reference outcomes + decision replay"),
    "C13": dict(
        text=("Lean 4: Ckpt roundtrip (Path.ofJson cap p.toJson = some {p with cap} for EVERY path), step_resets, "
              "run_depends_on_path_only, resume_suffix (a run resumed from the decoded checkpoint stored before iteration "
              "k+1 produces exactly the remaining iterations, also with iteration numbers restarting), "
              "failing_checkpoint_reproduces, checkpoint_cadence. Tie: same model twice / two processes / twin; for every "
              "stop point k stop (max_permutations) + resume must concatenate to the uninterrupted run; checkpoint file "
              "bytes = the twin's Path.render. F14 (thread-local destructor order) is not yet exercised."),
        ref="DESIGN.md §3 C13",
        technique="Lean 4 proofs over the Builder::check loop and the checkpoint codec + stop/resume differential runs"),
    "C15": dict(
        text=("Lean 4 (all reachable paths): preemptions_counts (loom's stored counter = number of earlier switches away "
              "from a thread that could continue), bound_invariant (preemptionsNow ≤ n everywhere; entries at the bound "
              "gain no alternatives), C15_each_execution_bounded, large_bound_never_cuts, assertion unreachable. "
              "Soundness/monotonicity of result sets across bounds 0..6/∞ is evaluated per program (chain and equality "
              "for large n) together with an independent recount of preemptions; explorer-twin correspondence per "
              "bound. Known finding F1 breaks 'bounded ⊆ unbounded'."),
        ref="DESIGN.md §3 C15",
        technique="Lean 4 invariants of the preemption counter + per-bound twin correspondence + result-set chain evaluation"),
    "C16": dict(
        text=("The twin is stateless by construction (Lean: step_resets, init_fresh, run_depends_on_path_only — thin); the "
              "substance is the correspondence: every program's full record (paths, clocks, thread and object tables of "
              "every iteration) must be identical alone in a fresh process, after all other programs in two orders "
              "(also after failing models), on 8 OS threads running models concurrently, and on the twin; iteration k re-executed as "
              "the first iteration of a fresh process from its start path must give the same record; every iteration must "
              "start from the initial explorer state (pos 0, not skipping, exploring as configured)."),
        ref="DESIGN.md §3 C16",
        technique="Lean 4 reset theorems (thin) + differential runs across process histories and concurrent OS threads"),
    "C18": dict(
        text=("Lean 4: Sched.yield_deprioritised (a yielded thread is chosen only if nothing is runnable; never becomes a "
              "backtrack alternative), yield_reactivated, Atomic.seen_before_yield_prune, Path.branch_limit. Progress "
              "and exit-outcome completeness are evaluated on await-loop families against the blocking-read reference; "
              "unsatisfiable loops must hit the branch limit; explorer-twin correspondence. Families include loops written "
              "yield-first and writers that go on after the flag (both sides take a ticket), and one round of such a loop written "
              "out and judged against RC11 (values read after the loop). Known: F29 (seen-before-yield prune across locations)."),
        ref="DESIGN.md §3 C18",
        technique="Lean 4 scheduler/yield laws + await-loop families vs blocking-read reference + twin correspondence"),
    "C19": dict(
        text=("Lean 4: nonexploring_frozen (entries created in a non-exploring region are never advanced or marked, along "
              "whole runs), control decision tables, skip_sticky, outside_unaffected (step = step of the exploring part), "
              "branch_limit_exact / thread_limit_exact (iff), permutation_limit_run (exact iteration count, ends without "
              "failure at the first checkpoint boundary ≥ max). Tie: regions at every placement, limit sweeps need-1 / "
              "need / need+1, permutation limits around interval multiples; twin correspondence; subset of unrestricted "
              "results."),
        ref="DESIGN.md §3 C19",
        technique="Lean 4 proofs of control/limit logic + placement and off-by-one sweeps + twin correspondence"),
    "C06": dict(
        text=("Lean 4 theorems about the loop of Builder::check (Check.loop/run over the twin's runIter, all programs, all "
              "fuels): loop_shape / first_panic (the run ends with the panic of the FIRST failing iteration, every earlier "
              "iteration completed, nothing after it is executed), ok_only_if_none_failed (normal return only if no "
              "executed iteration failed), later_run_starts_clean (a run is a function of the program). What is dropped "
              "while the panic unwinds and whether the process survives is not modelled: it is exercised by the "
              "correspondence run - a user panic inserted at every position of every thread of programs over every object "
              "kind, and loom-raised failures (deadlock, race, leak, branch limit) with guards, Arc handles, tracked and "
              "raw allocations and block_on frames alive in the failing thread; the process must survive, the verdict "
              "class must be one the reference semantics has, later programs in the same process must match the twin. "
              "Four abort defects found this way were repaired (F8, F12, F13, F28: fix commits c00b711, 8c1ee7c, 6d9d832, 17a6006; "
              "F28 = lazy statics / thread-locals with loom-using destructors dropped outside the execution); the branch "
              "limit must be raised at every limit below a program's need; "
              "F11 (closure of a never-started thread dropped outside the execution) repaired as well (bde1841)."),
        ref="DESIGN.md §3 C06",
        technique="Lean 4 proof over the check loop + panic-injection correspondence runs with process-survival oracle"),
    "C17": dict(
        text=("Lean 4 theorems over the twin's thread-local / lazy-static model (Interp.tlsGet, dropLocals, lazyGet, "
              "finishThread) - see checks/theorems.json for the audited list - plus evaluation against the reference "
              "semantics (Spec/SC.lean: a thread-local is created on first access by a thread, private, destroyed at "
              "thread end, AccessError afterwards; a lazy static is created once per execution with an init -> access "
              "edge) on exhaustive small families: 1-3 threads x every access pattern of 2 keys x 3 destructor "
              "behaviours, init/drop counters and instance ids, UnsafeCell inside the lazy value as race probe; every "
              "iteration replayed on the twin. F14 (destructor order from a HashMap) was repaired (b67ec75); known "
              "findings F22 (lazy statics torn down when the main closure returns), F23 (raced initialiser runs twice), F24; F20 "
              "(join before TLS destructors) repaired (e931437). Refinement theorem Props/Refine5.lean: every twin run "
              "over the thread-local / lazy fragment is a reference execution (raced initialisation excluded by the "
              "kernel-checked negative fact raced_init_not_reference)."),
        ref="DESIGN.md §3 C17",
        technique="Lean 4 theorems over the TLS/lazy-static model + reference outcomes + decision replay + cross-process determinism probe"),
    "C20": dict(
        text=("Lean 4 theorems over the twin's block_on / waker / AtomicWaker state machines (Interp.blockOnStage, "
              "wakeStage; Notify and Arc laws of C08/C11 underneath) - see checks/theorems.json - plus evaluation against "
              "the reference semantics (Spec/SC.lean: poll / register / re-check / wait phases) on families with one or "
              "two blocked futures and 1-2 wakers: wake by value / by reference / through AtomicWaker, before, during and "
              "after poll and registration, waker dropped, flag only, nobody waking (deadlock must be reported, not an "
              "abort: F8 repaired in c00b711); outcomes and verdicts must be equal; every iteration replayed on the twin. "
              "Refinement theorem Props/Refine4.lean (block_on modes 0-5, wakers, AtomicWaker): every twin run is a "
              "reference execution with equal results, no_lost_wakeup."),
        ref="DESIGN.md §3 C20",
        technique="Lean 4 theorems over the block_on/AtomicWaker model + reference outcomes + decision replay"),
    "C14": dict(
        text=("Machine-checked proof (Lean 4) over the model of rt/path.rs for ALL paths and iterations: step_spec, "
              "frame lemmas for every Path API call, no_repeat (decision vectors pairwise distinct), dfs_order, "
              "terminates (≤ 8^cap iterations, strictly decreasing measure), count_is_paths; tied to the code by "
              "comparing every iteration of every exploration (paths, marks, clocks, objects) with the Lean explorer "
              "twin and by evaluating no-repeat/DFS order directly on the implementation's decision sequences."),
        ref="DESIGN.md §3 C14",
        technique="Lean 4 invariant/measure proofs over the DFS stack + exact explorer-twin correspondence"),
}

def main():
    props = [json.loads(l) for l in open(os.path.join(VERIF, "properties.jsonl"))]
    checks = []
    na = []
    for p in props:
        pid = p["id"]
        if pid in CLAIMS:
            c = CLAIMS[pid]
            checks.append({
                "property_id": pid,
                "quick_cmd": f"./check {pid} --tier quick",
                "thorough_cmd": f"./check {pid} --tier thorough",
                "evidence_file": f"/verif/evidence/{pid}.json",
                "replay_cmd_template": "./check replay {path}",
                "engine": "lean-twin",
                "level_claimed": {"category": "proof", "text": c["text"], "design_ref": c["ref"]},
                "level_note": c.get("note", COMMON_NOTE),
                "technique": c["technique"],
            })
        else:
            na.append({"property_id": pid, "reason": "not claimed yet: the check for this property is under "
                       "construction in this build session (DESIGN.md §10 order); the technique applies"})
    m = {
        "version": 1,
        "setup_cmd": "cd /verif && ./setup.sh",
        "hooks": {
            "guard": "cargo feature verif-hooks",
            "enable": "the harness crate /verif/harness depends on loom by path with features "
                      "[\"verif-hooks\", \"checkpoint\", \"futures\"]; every check rebuilds it from /repo's working tree",
            "baseline_off_cmd": "cd /repo && cargo test --workspace --no-fail-fast --offline",
            "source_commits": HOOK_COMMITS,
            "add_only": True,
        },
        "engines": [{"name": "lean-twin", "path": "/verif/lean", "serves_properties": sorted(CLAIMS),
                     "kind_free_text": "Lean 4 model + theorems (lake project), native driver lvdriver, Rust harness "
                                       "lv-harness, Python orchestrator ./check"}],
        "checks": checks,
        "not_applicable": na,
        "notes": "See DESIGN.md. known_findings.txt lists genuine defects of the pinned tree.",
    }
    json.dump(m, open(os.path.join(VERIF, "MANIFEST.json"), "w"), indent=1)

main()

#!/bin/sh
# apply a seeded patch to /repo, run the given checks, undo it straight afterwards
PATCH=$1; shift
cd /verif
git -C /repo apply $PATCH || exit 1
for c in "$@"; do
  echo "=== $c"; ./check $c 2>&1 | cut -c1-160 | grep -v "^KNOWN" | head -6; 
done
git -C /repo checkout -- .
git -C /repo status --short | head -3

#!/usr/bin/env python3
"""tools/probe.py [--rc11] [--max N] < programs: explored outcomes of the implementation against the reference (dev aid)"""
import sys, os
sys.path.insert(0, os.path.dirname(os.path.dirname(os.path.abspath(__file__))))
import lvlib
from checks import findings as F
rc = "--rc11" in sys.argv
mx = int(sys.argv[sys.argv.index("--max") + 1]) if "--max" in sys.argv else 20000
ps = [l.strip() for l in sys.stdin if l.strip() and not l.startswith("#")]
lvlib.build_harness()
impl = lvlib.run_impl(ps, max_iters=mx)
twin = lvlib.run_twin(ps, max_iters=mx)
if rc:
    L = lvlib.run_rc11(ps, "strong"); U = lvlib.run_rc11(ps, "doc")
else:
    S = lvlib.run_sc(ps, 400000)
for p in ps:
    its, done = lvlib.iterations(impl.get(p, []))
    print("PROG", p)
    print("  impl", done, len(its), "its; twin equal:", impl.get(p) == twin.get(p))
    if rc:
        I = set(lvlib.outcome_str_rc11(i) for i in its)
        lo, ls, _ = L[p]; uo, us, _ = U[p]
        print("  rc11", ls, us, "|L|", len(lo), "|U|", len(uo), "|I|", len(I))
        fails = [("missing", o) for o in sorted(lo - I)] + [("forbidden", o) for o in sorted(I - uo)]
        if "--race" in sys.argv:
            racy = done[1].startswith("causality")
            fails = ([("forbidden", "causality")] if racy and "causality" not in uo else []) + \
                    ([("missed_failure", "causality")] if "causality" in lo and not racy else [])
    else:
        I = set(lvlib.outcome_str(i) for i in its)
        so, capped, n = S[p]
        print("  sc capped", capped, "|S|", len(so), "|I|", len(I))
        fails = [("missing", o) for o in sorted(so - I)] + [("forbidden", o) for o in sorted(I - so)]
    for k, o in fails:
        print("   ", k, o, "| sig:", [c for c, sig in F.SIGNATURES.items() if sig(p, k, o)])

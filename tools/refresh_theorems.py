#!/usr/bin/env python3
"""regenerate checks/theorems.json from the audit files (a maintenance tool: run after merging proof work, then review
the diff; the checks themselves only read theorems.json)"""
import json, os, re, subprocess, sys
from concurrent.futures import ThreadPoolExecutor
V = os.path.dirname(os.path.dirname(os.path.abspath(__file__)))
L = os.path.join(V, "lean")
KEY = {"Oracle": "ORACLE", "Refine": "REFINE", "Refine2": "REFINE2", "Refine3": "REFINE3", "Refine4": "REFINE4",
       "Refine5": "REFINE5", "Deadlock": "DEADLOCK", "Deadlock2": "DEADLOCK2", "Deadlock3": "DEADLOCK3", "OracleRC11": "ORACLE_RC11", "VCSound": "VCSOUND", "RaceDecl": "RACEDECL", "Race": "RACE", "Race2": "RACE2"}
ALLOWED = {"propext", "Classical.choice", "Quot.sound"}
path = os.path.join(V, "checks", "theorems.json")
table = json.load(open(path))
mods = sorted(f[:-5] for f in os.listdir(os.path.join(L, "LoomVerif", "Audit")) if f.endswith(".lean"))
def audit(m):
    r = subprocess.run(["lake", "env", "lean", f"LoomVerif/Audit/{m}.lean"], cwd=L, stdout=subprocess.PIPE,
                       stderr=subprocess.STDOUT, text=True)
    return m, r
with ThreadPoolExecutor(8) as ex:
    for m, r in ex.map(audit, mods):
        k = KEY.get(m, m)
        names = []
        for x in re.finditer(r"'([^']+)' (?:depends on axioms: \[([^\]]*)\]|does not depend on any axioms)", r.stdout):
            axs = set(a.strip() for a in (x.group(2) or "").replace("\n", " ").split(",") if a.strip())
            if not axs <= ALLOWED:
                print("FOREIGN AXIOMS", m, x.group(1), axs); sys.exit(1)
            names.append(x.group(1))
        if r.returncode != 0:
            print("AUDIT FAILS", m, r.stdout[-500:]); sys.exit(1)
        old = table.get(k, [])
        if set(old) != set(names):
            print(k, "removed:", sorted(set(old) - set(names)), "added:", sorted(set(names) - set(old)))
        table[k] = names
json.dump(table, open(path, "w"), indent=1)
print({k: len(v) for k, v in table.items()})

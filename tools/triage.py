#!/usr/bin/env python3
"""list oracle failures of a family grouped by matching signature class (for building known_findings.txt)"""
import sys, os, collections
sys.path.insert(0, os.path.dirname(os.path.dirname(os.path.abspath(__file__))))
import lvlib
from checks import common, findings as F
from gen import families, progs

def main():
    fam = sys.argv[1]
    seed = int(sys.argv[2]) if len(sys.argv) > 2 else 0
    if fam == "c01":
        ps = families.c01_family(seed, True)
    else:
        r = progs.Rng(seed); ps = list(dict.fromkeys(getattr(progs, "gen_" + fam)(r) for _ in range(300)))
    ctx = common.Ctx("C00", "quick", seed)
    impl = lvlib.run_impl(ps, max_iters=3000)
    fails = ctx.sc_check(ps, impl, 60000)
    groups = collections.defaultdict(list)
    for p, kind, o in fails:
        cls = [c for c, sig in F.SIGNATURES.items() if sig(p, kind, o)]
        groups[(kind, tuple(cls))].append((p, o))
    for k, v in sorted(groups.items(), key=lambda kv: -len(kv[1])):
        print(len(v), k)
        for p, o in v[:int(os.environ.get("SHOW", "2"))]:
            its, done = lvlib.iterations(impl[p])
            print("     ", p, "\n        ->", o, "| impl:", done)
main()

#!/usr/bin/env python3
import sys, os, collections
sys.path.insert(0, os.path.dirname(os.path.dirname(os.path.abspath(__file__))))
import lvlib
from gen import litmus
fam = sys.argv[1] if len(sys.argv) > 1 else "family"
ps = getattr(litmus, fam)(0, True)
t = lvlib.Timer()
impl = lvlib.run_impl(ps, max_iters=20000)
print("impl", t.s())
L = lvlib.run_rc11(ps, "strong"); print("strong", t.s())
U = lvlib.run_rc11(ps, "doc"); print("doc", t.s())
from checks import findings as F
groups = collections.defaultdict(list)
stats = collections.Counter()
shown = collections.Counter()
for p in ps:
    its, done = lvlib.iterations(impl.get(p, []))
    lo, ls, _ = L.get(p, (set(), "abort", 0)); uo, us, _ = U.get(p, (set(), "abort", 0))
    if ls != "ok" or us != "ok" or not done or done[1] == "capped":
        stats["skipped:" + ls] += 1; continue
    I = set(lvlib.outcome_str_rc11(it) for it in its)
    forb = sorted(I - uo)
    miss = sorted(lo - I) if done[1] == "ok" else []
    if not lo <= uo: stats["ORACLE-INCONSISTENT"] += 1
    for k, v in (("forbidden", forb), ("missing", miss)):
        if v:
            cls = tuple(c for c, sig in F.SIGNATURES.items() if sig(p, k, v[0]))
            groups[(k, cls)].append((p, v[0]))
            stats[k] += 1
            if shown[k] < int(os.environ.get("SHOW", "6")):
                shown[k] += 1
                print(k.upper(), p, "\n    ", v[0], "| impl", done, len(its), "its; |L|", len(lo), "|U|", len(uo), "|I|", len(I))
    if not forb and not miss: stats["ok"] += 1
print(dict(stats), t.s())
for k, v in sorted(groups.items(), key=lambda kv: -len(kv[1])):
    print(len(v), k)
    for p, o in v[:2]:
        print("     ", p, "->", o)

#!/bin/sh
# tools/seed_eval.sh <patch> <check>...: summary of what each check reports with the patch applied
PATCH=$1; shift
cd /verif
git -C /repo apply $PATCH || exit 1
for c in "$@"; do
  find replays -name "$c-*.json" -delete
  ./check $c > /dev/null 2>&1
  python3 - "$c" <<'PY'
import json,glob,sys,collections
c=sys.argv[1]
k=collections.Counter(); ex=None
for f in glob.glob(f'/verif/replays/{c}-*.json'):
    d=json.load(open(f))
    if 'skipped' in json.dumps(d['detail']): continue
    k[(d['kind'],d['found_failing_input'])]+=1
    if d['found_failing_input'] and ex is None: ex=(d['program'], str(d['detail'].get('outcome') or d['detail'].get('problems') or d['detail'].get('error'))[:200])
print(c, dict(k), '| example:', ex)
PY
done
git -C /repo checkout -- .

#!/bin/sh
# re-evaluate every archived seeded change against the check of the property it breaks
cd /verif
for d in seeded/*/; do
  [ -f "$d/meta.json" ] || continue
  n=$(basename $d)
  p=$(python3 -c "import json;print(json.load(open('$d/meta.json'))['breaks_property'])")
  r=$(tools/seed_eval.sh /verif/$d/patch.diff $p 2>&1 | tail -1 | cut -c1-160)
  echo "$n -> $r"
done
git -C /repo status --short | head -3

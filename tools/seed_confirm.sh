#!/bin/sh
# confirm a seeded change in its scratch worktree: suite passes with it, demo fails with it, demo passes without it
ID=$1
W=/tmp/seed/$ID
cd $W || exit 1
git diff -- src > /tmp/seed/$ID.patch.mine
echo "== patch"; cat /tmp/seed/$ID.patch.mine | head -60
echo "== suite with change"
cargo test --offline --no-fail-fast 2>&1 | grep -E "^test result|FAILED|failed" | grep -v "seed_demo" | awk '{print $1,$2,$3,$4,$5,$6,$7}' | sort | uniq -c | head
echo "== demo with change (expect failure)"
cargo test --offline --test seed_demo 2>&1 | grep -E "^test result|panicked" | head -4
git stash -q -- src
echo "== demo without change (expect pass)"
cargo test --offline --test seed_demo 2>&1 | grep -E "^test result" | head -3
git stash pop -q
git status --short | head

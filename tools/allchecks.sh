#!/bin/sh
# run every claimed check for the given seeds; print the checks that raise an alarm
cd /verif
for seed in "$@"; do
  for c in $(python3 -c "import json; print(' '.join(x['property_id'] for x in json.load(open('MANIFEST.json'))['checks']))"); do
    out=$(VERIF_SEED=$seed ./check $c 2>&1)
    n=$(echo "$out" | grep -c "^VIOLATION")
    [ "$n" != "0" ] && echo "seed=$seed $c: $n violations: $(echo "$out" | grep '^VIOLATION' | head -2 | tr '\n' ' ')"
  done
  echo "seed $seed done"
done

#!/usr/bin/env python3
"""differential smoke test: random programs on impl and twin, report disagreements"""
import sys, os
sys.path.insert(0, os.path.dirname(os.path.dirname(os.path.abspath(__file__))))
import lvlib
from gen import progs

def main():
    seed = int(sys.argv[1]) if len(sys.argv) > 1 else 0
    n = int(sys.argv[2]) if len(sys.argv) > 2 else 200
    kind = sys.argv[3] if len(sys.argv) > 3 else "mixed"
    r = progs.Rng(seed)
    g = getattr(progs, "gen_" + kind)
    ps = list(dict.fromkeys(g(r) for _ in range(n)))
    t = lvlib.Timer()
    impl = lvlib.run_impl(ps, max_iters=3000)
    twin = lvlib.run_twin(ps, max_iters=3000)
    bad = 0
    terms = {}
    iters = 0
    for p in ps:
        a, b = impl.get(p, []), twin.get(p, [])
        its, done = lvlib.iterations(a)
        iters += len(its)
        if done:
            terms[done[1]] = terms.get(done[1], 0) + 1
        d = lvlib.first_diff(a, b)
        if d:
            bad += 1
            if bad <= 5:
                print("DIFF", p)
                print("   at line", d[0], "\n   impl:", d[1][:300], "\n   twin:", d[2][:300])
                # context
                lo = max(0, d[0] - 6)
                for l in a[lo:d[0]]:
                    print("      ", l[:200])
    print(f"{len(ps)} programs, {iters} iterations, {bad} disagreements, {t.s()}s; terms={terms}")

main()

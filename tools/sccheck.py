#!/usr/bin/env python3
"""exploratory: compare implementation outcomes with the SC reference on random programs"""
import sys, os
sys.path.insert(0, os.path.dirname(os.path.dirname(os.path.abspath(__file__))))
import lvlib
from gen import progs

def main():
    seed = int(sys.argv[1]) if len(sys.argv) > 1 else 0
    n = int(sys.argv[2]) if len(sys.argv) > 2 else 200
    kind = sys.argv[3] if len(sys.argv) > 3 else "mixed"
    r = progs.Rng(seed)
    g = getattr(progs, "gen_" + kind)
    ps = list(dict.fromkeys(g(r) for _ in range(n)))
    if "fence" in kind or True:
        ps = [p for p in ps if "fence" not in p]
    impl = lvlib.run_impl(ps, max_iters=3000)
    sc = lvlib.run_sc(ps, 100000)
    stats = {"ok": 0, "skipped": 0, "forbidden": 0, "missing": 0, "missed_failure": 0}
    shown = 0
    for p in ps:
        its, done = lvlib.iterations(impl.get(p, []))
        outs, capped, states = sc.get(p, (set(), True, 0))
        if capped or not done or done[1] == "capped":
            stats["skipped"] += 1
            continue
        I = [lvlib.outcome_str(it) for it in its]
        problems = []
        for o in I:
            if o not in outs:
                problems.append(("forbidden", o))
                break
        if done[1] == "ok":
            miss = [o for o in outs if o not in set(I)]
            okmiss = [o for o in miss if o.startswith("ok")]
            bad = [o for o in miss if not o.startswith("ok")]
            if bad:
                problems.append(("missed_failure", bad[0]))
            elif okmiss:
                problems.append(("missing", okmiss[0]))
        if not problems:
            stats["ok"] += 1
        for k, o in problems:
            stats[k] += 1
            if shown < int(os.environ.get("SHOW", "8")):
                shown += 1
                print(k.upper(), p, "\n    ", o, "\n     impl result:", done, "iterations", len(its))
    print(stats)
main()

#!/bin/sh
# Build the Lean project (model, proofs, driver) and the Rust harness. Offline.
set -e
cd /verif/lean && lake build LoomVerif lvdriver
cd /verif/harness && CARGO_NET_OFFLINE=true cargo build --release --offline

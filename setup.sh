#!/bin/sh
# Build the Lean project (model, proofs, driver) and the Rust harness. Offline.
set -e
HERE=$(cd "$(dirname "$0")" && pwd)
cd "$HERE/lean" && lake build LoomVerif lvdriver
cd "$HERE/harness" && CARGO_NET_OFFLINE=true CARGO_TARGET_DIR="$HERE/.build/harness-target" cargo build --release --offline

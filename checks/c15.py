"""C15 — a preemption bound restricts exploration soundly and monotonically."""
import re

import lvlib
from gen import families, progs

BOUNDS = ["0", "1", "2", "3", "4", "5", "6", "none"]


def with_bound(p, b):
    return p.replace("cfg ", f"cfg bound={b} ", 1)


def base_family(ctx):
    r = progs.Rng(ctx.seed ^ 0xC15)
    out = []
    n = 36 if ctx.quick else 500
    out += families.exhaustive("atomic", 2, 2, n, r.fork("a2"))
    out += families.exhaustive("mutex", 2, 2, n, r.fork("m2"))
    out += families.exhaustive("atomic", 3, 1, n // 2, r.fork("a3"))
    out += families.exhaustive("mutex", 3, 1, n // 2, r.fork("m3"))
    out += families.exhaustive("channel", 2, 2, n // 2, r.fork("q2"))
    for _ in range(20 if ctx.quick else 400):
        out.append(progs.gen_mixed(r))
    out.append("cfg x=1 | T0: spawn 1; ld 0 rlx; st 0 1 rlx; join 1; ld 0 rlx | T1: ld 0 rlx; st 0 10 rlx")
    from gen import corpus
    out += corpus.corpus("C15")
    out += families.exhaustive("notify", 2, 2, n // 2, r.fork("n2"))
    return list(dict.fromkeys(out))


def preemptions(view):
    """switches away from a thread that could have continued, recounted from the status arrays"""
    n = 0
    prev_active = None
    for e in view:
        if e.startswith(("L", "U")):
            continue
        a = e.find("A")
        if prev_active is not None and a != prev_active and prev_active < len(e) and e[prev_active] == "S":
            n += 1
        prev_active = a if a >= 0 else None
    return n


def nops(p):
    return sum(len([o for o in th.split(":", 1)[1].split(";") if o.strip()]) for th in p.split("|")[1:])


def run(ctx):
    ctx.prove(ctx.theorems())
    ctx.build_harness()
    base = base_family(ctx)
    programs = [with_bound(p, b) for p in base for b in BOUNDS]
    ctx.cov["rule"] = ("atomic, mutex and channel programs (exhaustive small shapes sampled by seed, plus random mixed ones), "
                       "each run with preemption_bound 0..6 and unbounded; every run is compared with the explorer twin "
                       "(paths incl. preemptions/initial_active); per execution the preemptions are recounted from the "
                       "status arrays; per program the result sets must form a chain R0 ⊆ … ⊆ R6 ⊆ R∞ and R_n = R∞ "
                       "for n ≥ number of operations; non-trivial = the unbounded run has more than one iteration")
    cap = 3000 if ctx.quick else 30000
    impl, twin, dis = ctx.correspond(programs, cap, view="explore")
    differing = {d["program"] for d in dis}
    failures = []
    nontrivial = 0
    cut = 0
    for p in base:
        sets = {}
        usable = True
        _its0, done_none = lvlib.iterations(impl.get(with_bound(p, "none"), []))
        for b in BOUNDS:
            q = with_bound(p, b)
            its, done = lvlib.iterations(impl.get(q, []))
            ctx.cov["evaluations"] += len(its)
            ctx.cov["traces_validated_against_impl"] += len(its)
            if not done or done[1] != "ok":
                usable = False
                if b != "none" and done and done[1] not in ("ok", "capped") and done_none and done_none[1] == "ok":
                    if done[1].startswith(("other(", "internal")):
                        # loom's own assertions about the bound: never legitimate
                        failures.append((q, "forbidden", f"run with bound {b} ends with {done[1]} in iteration {len(its)}, the "
                                         f"unbounded run passes"))
                    else:
                        # a bound only removes executions: a failing execution found with the bound is one the unbounded
                        # exploration missed (same judgement as for results below; the listed incompleteness of the
                        # unbounded exploration - F1, F7 - is attributed by signature)
                        failures.append((q, "missing", f"result found with bound {b} but not by the unbounded run: the run "
                                         f"fails with {done[1]} in iteration {len(its)}"))
                if done and done[1] == "capped":
                    ctx.cov["skipped_for_size"] += 1
                continue
            sets[b] = set(lvlib.outcome_str(it) for it in its)
            if b != "none":
                for it in its:
                    k = preemptions(it.get("view", []))
                    if k > int(b):
                        failures.append((q, "forbidden", f"execution with {k} preemptions under bound {b}: " +
                                         " ".join(it.get("view", []))))
                        break
        if not usable or "none" not in sets:
            continue
        if len(impl.get(with_bound(p, "none"), [])) and len(sets["none"]) > 1:
            nontrivial += 1
        if sets["0"] != sets["none"]:
            cut += 1
        chain = [b for b in BOUNDS if b in sets]
        for a, b in zip(chain, chain[1:]):
            extra = sorted(sets[a] - sets[b])
            if extra:
                failures.append((with_bound(p, a), "missing",
                                 f"result found with bound {a} but not with bound {b}: {extra[0]}"))
                break
        big = [b for b in chain if b != "none" and int(b) >= nops(p)]
        for b in big:
            if sets[b] != sets["none"]:
                failures.append((with_bound(p, b), "missing", f"bound {b} ≥ {nops(p)} operations but result set differs "
                                 f"from the unbounded one: {sorted(sets[b] ^ sets['none'])[0]}"))
                break
        if len(ctx.cov["samples"]) < 4 and sets["0"] != sets["none"]:
            ctx.sample({"program": p, "results_per_bound": {b: len(s) for b, s in sets.items()}})
    unlisted = ctx.attribute(failures, differing)
    if dis and not unlisted:
        for d in dis[:3]:
            ctx.violation("correspondence", {"disagreement": d, "rests_on_it": ctx.theorems()}, found_input=False,
                          program=d["program"])
    # listed findings of this property: a result found with a bound that the unbounded run lacks
    for k in ctx.known:
        if k.get("kind") == "bound-not-subset":
            w = k["witness"]
            rb = lvlib.run_impl([with_bound(w, "6"), with_bound(w, "none")], max_iters=cap)
            sb = set(lvlib.outcome_str(it) for it in lvlib.iterations(rb[with_bound(w, "6")])[0])
            sn = set(lvlib.outcome_str(it) for it in lvlib.iterations(rb[with_bound(w, "none")])[0])
            if k["outcome"] in sb and k["outcome"] not in sn:
                ctx.known_finding(k["id"], "(bounded run finds a result the unbounded run does not) " + k["what"])
    ctx.cov["programs"] = len(programs)
    ctx.cov["distinct_nontrivial"] = nontrivial
    ctx.cov["distribution"] = {"base_programs": len(base), "bounds": BOUNDS, "programs_where_bound0_cuts_results": cut,
                               "oracle_failures": len(failures), "disagreements": len(dis)}

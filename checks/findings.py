"""Signatures of the known findings (defects of the pinned tree listed in known_findings.txt).

A failure found by an oracle is attributed to a listed finding only if
  (1) the implementation behaves exactly like the Lean twin on that program (the twin mirrors the
      pinned tree, defects included, so a *new* defect necessarily shows up as a disagreement), and
  (2) the failure kind and the shape of the program match the finding's signature below.
Everything else is reported as a violation.
"""
import re


def threads_of(prog):
    parts = prog.split("|")
    out = []
    for th in parts[1:]:
        body = th.split(":", 1)[1]
        out.append([o.split() for o in body.split(";") if o.split()])
    return out


ATOMIC_WRITE = {"st", "swap", "cas", "cswp", "fadd", "fsub", "fand", "fnand", "for", "fxor", "fmax", "fmin",
                "fupd", "wmut"}
ATOMIC_READ = {"ld", "await", "uld"} | ATOMIC_WRITE


def ops_by_thread(prog, names):
    res = []
    for t, ops in enumerate(threads_of(prog)):
        res.append([o for o in ops if o[0] in names])
    return res


def shared_atomic_rw(prog):
    """some atomic is written by one thread and accessed by another"""
    ths = threads_of(prog)
    writers, readers = {}, {}
    for t, ops in enumerate(ths):
        for o in ops:
            if o[0] in ATOMIC_WRITE:
                writers.setdefault(o[1], set()).add(t)
            if o[0] in ATOMIC_READ:
                readers.setdefault(o[1], set()).add(t)
    for x, ws in writers.items():
        if len(ws | readers.get(x, set())) >= 2:
            return True
    return False


def has(prog, *names):
    return any(o[0] in names for ops in threads_of(prog) for o in ops)


def in_two_threads(prog, a, b):
    """an op of set `a` and an op of set `b` occur in different threads"""
    ths = threads_of(prog)
    ta = {t for t, ops in enumerate(ths) for o in ops if o[0] in a}
    tb = {t for t, ops in enumerate(ths) for o in ops if o[0] in b}
    return any(x != y for x in ta for y in tb)


BLOCKING = {"lock", "rd", "wr", "join", "cvwait", "recv", "nwait", "trylock", "tryrd", "trywr"}

RMW = {"swap", "cas", "cswp", "fadd", "fsub", "fand", "fnand", "for", "fxor", "fmax", "fmin", "fupd"}


def rmw_vs_write(prog):
    """an RMW on a location that another thread writes (plain store or RMW)"""
    ths = threads_of(prog)
    for t, ops in enumerate(ths):
        for o in ops:
            if o[0] in RMW:
                for u, ops2 in enumerate(ths):
                    if u != t and any(p[0] in ATOMIC_WRITE and p[1] == o[1] for p in ops2):
                        return True
    return False


def multi_writer_location(prog):
    """a location with at least two writes, written by at least two threads, that somebody loads"""
    ths = threads_of(prog)
    w, n = {}, {}
    for t, ops in enumerate(ths):
        for o in ops:
            if o[0] in ATOMIC_WRITE:
                w.setdefault(o[1], set()).add(t)
                n[o[1]] = n.get(o[1], 0) + 1
    return any(len(ts) >= 2 and n[x] >= 2 for x, ts in w.items())


def has_fence(prog, kinds):
    return any(o[0] == "fence" and o[1] in kinds for ops in threads_of(prog) for o in ops)


def sc_load_and_stores(prog):
    ths = threads_of(prog)
    for x in {o[1] for ops in ths for o in ops if o[0] in ATOMIC_READ}:
        sc_ld = any(o[0] == "ld" and o[1] == x and o[-1] == "sc" for ops in ths for o in ops)
        sc_st = sum(1 for ops in ths for o in ops if o[0] in ATOMIC_WRITE and o[1] == x and "sc" in o[3:])
        if sc_ld and sc_st >= 2:
            return True
    return False


SIGNATURES = {
    # F4: a store is left unordered with an RMW although it is ordered after the store the RMW read
    "rmw-atomicity": lambda p, kind, o: kind == "forbidden" and rmw_vs_write(p),
    # F3: pointwise clock order is not the modification order (a read raises an old store's clock)
    "coherence-clock-order": lambda p, kind, o: kind == "forbidden" and multi_writer_location(p),
    # F2: fence(Acquire) acquires from every store seen by a thread that happens-before the fencing thread
    "fence-acquire-over-sync": lambda p, kind, o: kind in ("missing", "missed_failure") and has_fence(p, {"acq", "ar", "sc"}),
    # F16: a SeqCst load is not offered a SeqCst store when a clock-newer SeqCst store exists
    "seqcst-load-pruning": lambda p, kind, o: kind == "missing" and sc_load_and_stores(p),
    # F1: a thread's own access overwrites the single last-access slot of an atomic
    "dpor-atomic-single-slot": lambda p, kind, o: kind in ("missing", "missed_failure") and shared_atomic_rw(p),
    # F7: emptiness test of try_recv / Receiver::drop is not a branch point
    "chan-unbranched-empty-test": lambda p, kind, o: kind in ("missing", "missed_failure")
    and has(p, "tryrecv", "droprx") and has(p, "send"),
    # F10: Inspect is not a dependence for RefDec / RefInc pairs
    "arc-inspect-not-dependent": lambda p, kind, o: kind in ("missing", "missed_failure")
    and in_two_threads(p, {"acount", "agetmut", "aunwrap"}, {"adrop", "aclone", "adec", "ainc", "aunwrap", "agetmut"}),
    # F9: a thread pending on a try-acquire is blocked by another thread's acquisition
    "try-acquire-blocked": lambda p, kind, o: kind in ("forbidden", "missing") and has(p, "trylock", "tryrd", "trywr"),
    # F5/F6/F17/F18: unpark wakes any blocked thread / token cleared or spent elsewhere / edge without park
    "unpark-misdirected": lambda p, kind, o: has(p, "unpark") and has(p, *BLOCKING),
    "unpark-token-cleared": lambda p, kind, o: has(p, "unpark") and has(p, "park") and has(p, "unlock", "unrd", "unwr", "send"),
    "unpark-edge-without-park": lambda p, kind, o: kind in ("missed_failure", "forbidden", "missing") and has(p, "unpark"),
    # F15: a stale park token makes Condvar::wait return while the thread stays queued
    "condvar-stale-token": lambda p, kind, o: has(p, "cvwait") and has(p, "unpark"),
    # strong_count acquires (std uses a relaxed load): a race hidden behind acount
    # F12: a leaked raw allocation aborts the process instead of reporting "Allocation leaked"
    "raw-alloc-leak-abort": lambda p, kind, o: kind == "abort" and has(p, "alloc"),
    "arc-count-acquires": lambda p, kind, o: kind == "missed_failure" and has(p, "acount"),
}


def match(finding, prog, kind, outcome):
    sig = SIGNATURES.get(finding.get("class"))
    return bool(sig and sig(prog, kind, outcome))

"""Signatures of the known findings (defects of the pinned tree listed in known_findings.txt).

A failure found by an oracle is attributed to a listed finding only if
  (1) the implementation behaves exactly like the Lean twin on that program (the twin mirrors the
      pinned tree, defects included, so a *new* defect necessarily shows up as a disagreement), and
  (2) the failure kind and the shape of the program match the finding's signature below.
Everything else is reported as a violation.
"""
import re


def threads_of(prog):
    parts = prog.split("|")
    out = []
    for th in parts[1:]:
        body = th.split(":", 1)[1]
        out.append([o.split() for o in body.split(";") if o.split()])
    return out


ATOMIC_WRITE = {"st", "swap", "cas", "cswp", "fadd", "fsub", "fand", "fnand", "for", "fxor", "fmax", "fmin",
                "fupd", "wmut"}
ATOMIC_READ = {"ld", "await", "uld"} | ATOMIC_WRITE


def ops_by_thread(prog, names):
    res = []
    for t, ops in enumerate(threads_of(prog)):
        res.append([o for o in ops if o[0] in names])
    return res


def shared_atomic_rw(prog):
    """some atomic is written by one thread and accessed by another"""
    ths = threads_of(prog)
    writers, readers = {}, {}
    for t, ops in enumerate(ths):
        for o in ops:
            if o[0] in ATOMIC_WRITE:
                writers.setdefault(o[1], set()).add(t)
            if o[0] in ATOMIC_READ:
                readers.setdefault(o[1], set()).add(t)
    for x, ws in writers.items():
        if len(ws | readers.get(x, set())) >= 2:
            return True
    return False


def has(prog, *names):
    return any(o[0] in names for ops in threads_of(prog) for o in ops)


def in_two_threads(prog, a, b):
    """an op of set `a` and an op of set `b` occur in different threads"""
    ths = threads_of(prog)
    ta = {t for t, ops in enumerate(ths) for o in ops if o[0] in a}
    tb = {t for t, ops in enumerate(ths) for o in ops if o[0] in b}
    return any(x != y for x in ta for y in tb)


BLOCKING = {"lock", "rd", "wr", "join", "cvwait", "recv", "nwait", "trylock", "tryrd", "trywr"}

RMW = {"swap", "cas", "cswp", "fadd", "fsub", "fand", "fnand", "for", "fxor", "fmax", "fmin", "fupd"}


def rmw_vs_write(prog):
    """an RMW on a location that another thread writes (plain store or RMW)"""
    ths = threads_of(prog)
    for t, ops in enumerate(ths):
        for o in ops:
            if o[0] in RMW:
                for u, ops2 in enumerate(ths):
                    if u != t and any(p[0] in ATOMIC_WRITE and p[1] == o[1] for p in ops2):
                        return True
    return False


def multi_writer_location(prog):
    """a location with at least two writes, written by at least two threads, that somebody loads"""
    ths = threads_of(prog)
    w, n = {}, {}
    for t, ops in enumerate(ths):
        for o in ops:
            if o[0] in ATOMIC_WRITE:
                w.setdefault(o[1], set()).add(t)
                n[o[1]] = n.get(o[1], 0) + 1
    return any(len(ts) >= 2 and n[x] >= 2 for x, ts in w.items())


def has_fence(prog, kinds):
    return any(o[0] == "fence" and o[1] in kinds for ops in threads_of(prog) for o in ops)


def sc_load_and_stores(prog):
    ths = threads_of(prog)
    for x in {o[1] for ops in ths for o in ops if o[0] in ATOMIC_READ}:
        sc_ld = any(o[0] == "ld" and o[1] == x and o[-1] == "sc" for ops in ths for o in ops)
        sc_st = sum(1 for ops in ths for o in ops if o[0] in ATOMIC_WRITE and o[1] == x and "sc" in o[3:])
        if sc_ld and sc_st >= 2:
            return True
    return False


def op_results(prog, outcome):
    """[(thread, pc, op tokens, result)] for the results listed in an outcome string"""
    ths = threads_of(prog)
    out = []
    for tok in outcome.split(" ")[1:]:
        m = re.match(r"(\d+):(\d+)=(.*)$", tok)
        if m:
            t, pc, r = int(m.group(1)), int(m.group(2)), m.group(3)
            if t < len(ths) and pc < len(ths[t]):
                out.append((t, pc, ths[t][pc], r))
    return out


def verdict(outcome):
    return outcome.split(" ")[0] if outcome else ""


def own_access_then_write(prog):
    """F1 shape: a thread accesses a location and later writes it, and another thread accesses it"""
    ths = threads_of(prog)
    for t, ops in enumerate(ths):
        seen = set()
        for o in ops:
            if o[0] in ATOMIC_READ or o[0] in ATOMIC_WRITE:
                x = o[1]
                if (o[0] in ATOMIC_WRITE and x in seen) or o[0] == "fupd":
                    if any(p[0] in ATOMIC_READ | ATOMIC_WRITE and p[1] == x
                           for u, ops2 in enumerate(ths) if u != t for p in ops2):
                        return True
                seen.add(x)
    return False


def successful_rmw_vs_write(prog, outcome):
    """F4 shape: an RMW that succeeded in this outcome on a location another thread writes"""
    ths = threads_of(prog)
    for t, pc, op, r in op_results(prog, outcome):
        if op[0] in RMW and not r.startswith("err"):
            if any(p[0] in ATOMIC_WRITE and p[1] == op[1] for u, ops2 in enumerate(ths) if u != t for p in ops2):
                return True
    return False


def three_writes_two_threads(prog):
    """F3 shape: a location with at least three unconditional writes coming from at least two threads"""
    ths = threads_of(prog)
    uncond = ATOMIC_WRITE - {"cas", "cswp", "fupd"}
    w, n = {}, {}
    for t, ops in enumerate(ths):
        for o in ops:
            if o[0] in uncond:
                w.setdefault(o[1], set()).add(t)
                n[o[1]] = n.get(o[1], 0) + 1
    return any(len(ts) >= 2 and n[x] >= 3 for x, ts in w.items())


def unbranched_empty_test(prog):
    """F7 shape: try_recv, or a Receiver dropped while a sender that it has not joined may still send"""
    ths = threads_of(prog)
    if has(prog, "tryrecv"):
        return has(prog, "send")
    senders = {t for t, ops in enumerate(ths) if any(o[0] == "send" for o in ops)}
    for t, ops in enumerate(ths):
        joined = set()
        for o in ops:
            if o[0] == "join":
                joined.add(int(o[1]))
            if o[0] == "droprx":
                if any(u != t and u not in joined for u in senders):
                    return True
    return False


def load_after_join_unset(prog, outcome):
    """F20 shape: main loads x0 after a join and reads a value that is not a destructor's (10 + key)"""
    ths = threads_of(prog)
    joined = False
    res = {(t, pc): r for t, pc, _op, r in op_results(prog, outcome)}
    for pc, o in enumerate(ths[0]):
        if o[0] == "join":
            joined = True
        if joined and o[0] == "ld" and res.get((0, pc)) not in ("v:10", "v:11"):
            return True
    return False


def lazy_raced(prog, outcome):
    """F23 shape: an atomic is declared (the initialiser has a scheduling point), two threads touch the same lazy
    static, and some access returned an instance id >= 2"""
    if not re.search(r"\bx=[1-9]", prog):
        return False
    ths = threads_of(prog)
    users = {}
    for t, ops in enumerate(ths):
        for o in ops:
            if o[0] == "lazy":
                users.setdefault(o[1], set()).add(t)
    res = op_results(prog, outcome)
    second = any(op[0] == "lazy" and r.startswith("v:") and int(r[2:]) >= 200 and len(users.get(op[1], ())) >= 2
                 for _t, _pc, op, r in res)
    # … or the run counter (atomic 0) shows more runs than there are lazy statics in the program
    keys = {o[1] for ops in ths for o in ops if o[0] == "lazy"}
    counted = any(op[0] == "ld" and op[1] == "0" and r.startswith("v:") and int(r[2:]) > len(keys) for _t, _pc, op, r in res)
    return (second or counted) and any(len(u) >= 2 for u in users.values())


def unjoined_lazy(prog):
    """F22 shape: a spawned thread that main never joins touches a lazy static"""
    ths = threads_of(prog)
    joined = {int(o[1]) for o in ths[0] if o[0] == "join"}
    return any(t not in joined and any(o[0] == "lazy" for o in ops) for t, ops in enumerate(ths) if t > 0)


def own_inspect_then_dec(prog):
    """F10 (rest) shape: a thread inspects an Arc and later decrements it (its own inspection is then the only one
    its decrement is compared with) while another thread inspects too"""
    ths = threads_of(prog)
    insp = {"acount", "agetmut", "aunwrap"}
    dec = {"adrop", "adec", "aunwrap", "agetmut"}
    for t, ops in enumerate(ths):
        seen = False
        for o in ops:
            if seen and o[0] in dec:
                if any(p[0] in insp for u, ops2 in enumerate(ths) if u != t for p in ops2):
                    return True
            if o[0] in insp:
                seen = True
    return False


ASSERTS = {"notNotified", "expectedLock", "expectedRead", "expectedWrite"}

def yield_then_stale_reload(prog):
    """F29: a thread yields and later loads a location whose older store it has itself seen before the yield: it
    created the atomic (main thread: the initial value) or accessed the location before yielding"""
    for t, ops in enumerate(threads_of(prog)):
        ys = [i for i, o in enumerate(ops) if o[0] in ("yield", "await")]
        if not ys:
            continue
        y = ys[0]
        for o in ops[y + 1:]:
            if o[0] == "ld" and (t == 0 or any(b[0] in ATOMIC_READ | ATOMIC_WRITE and b[1] == o[1] for b in ops[:y])):
                return True
    return False


SIGNATURES = {
    # F29: stores a thread saw before its yield are pruned from ALL its later loads once a newer store exists
    "seen-before-yield-prune": lambda p, kind, o: kind == "missing" and yield_then_stale_reload(p),
    # F4: a store is left unordered with an RMW although it is ordered after the store the RMW read
    # F27: two threads with a SeqCst fence: the fence order is treated as happens-before (a race hidden by it)
    "seqcst-fence-order-as-hb": lambda p, kind, o: kind == "missed_failure" and verdict(o).startswith("causality")
    and sum(1 for ops in threads_of(p) if any(x[0] == "fence" and x[1] == "sc" for x in ops)) >= 2,
    "rmw-atomicity": lambda p, kind, o: kind == "forbidden" and successful_rmw_vs_write(p, o),
    # F3: pointwise clock order is not the modification order (a read raises an old store's clock)
    "coherence-clock-order": lambda p, kind, o: kind == "forbidden" and three_writes_two_threads(p),
    # F2: fence(Acquire) acquires from every store seen by a thread that happens-before the fencing thread
    # (needs a third thread: a store is "seen" by a thread other than its writer and the fencing thread)
    "fence-acquire-over-sync": lambda p, kind, o: kind in ("missing", "missed_failure") and has_fence(p, {"acq", "ar", "sc"})
    and sum(1 for ops in threads_of(p) if any(x[0] in ATOMIC_READ | ATOMIC_WRITE for x in ops)) >= 3,
    # F16: a SeqCst load is not offered a SeqCst store when a clock-newer SeqCst store exists
    "seqcst-load-pruning": lambda p, kind, o: kind == "missing" and sc_load_and_stores(p),
    # F1: a thread's own access overwrites the single last-access slot of an atomic
    "dpor-atomic-single-slot": lambda p, kind, o: kind in ("missing", "missed_failure") and own_access_then_write(p),
    # F7: emptiness test of try_recv / Receiver::drop is not a branch point
    "chan-unbranched-empty-test": lambda p, kind, o: kind in ("missing", "missed_failure") and unbranched_empty_test(p),
    # F10: Inspect is not a dependence for RefDec / RefInc pairs
    "arc-inspect-not-dependent": lambda p, kind, o: kind in ("missing", "missed_failure") and own_inspect_then_dec(p),
    # F9: a thread pending on a try-acquire is blocked by another thread's acquisition
    "try-acquire-blocked": lambda p, kind, o: has(p, "trylock", "tryrd", "trywr") and kind == "missing",
    # F5/F6: unpark wakes a thread that is blocked on something else (internal assertion / token spent)
    "unpark-misdirected": lambda p, kind, o: has(p, "unpark") and kind == "forbidden"
    and (verdict(o) in ASSERTS or verdict(o) == "deadlock"),
    # F18: a pending token is cleared by an unrelated release
    "unpark-token-cleared": lambda p, kind, o: kind == "forbidden" and verdict(o) == "deadlock" and has(p, "unpark")
    and has(p, "park") and has(p, "unlock", "unrd", "unwr", "send"),
    # F17: unpark orders the unparker's past before the target at once, park or not
    "unpark-edge-without-park": lambda p, kind, o: has(p, "unpark") and has(p, "crd", "cwr") and (
        (kind == "missed_failure" and verdict(o).startswith("causality"))
        or (kind == "forbidden" and verdict(o) in ("ok", "deadlock"))),   # (the hidden race lets the run go on)
    # F19: park tests the token without a branch point and unpark is not a branch point either
    "park-unbranched-token-test": lambda p, kind, o: kind in ("missing", "missed_failure") and has(p, "park")
    and has(p, "unpark"),
    # F15: a stale park token makes Condvar::wait return while the thread stays queued
    "condvar-stale-token": lambda p, kind, o: has(p, "cvwait") and has(p, "unpark"),
    # F8: a deadlock (or another loom-raised panic) unwinds a frame that owns a loom Arc: Arc::drop → schedule
    # without an active thread → panic in a destructor → abort.  block_on owns such an Arc.
    "arc-drop-during-deadlock-abort": lambda p, kind, o: kind == "abort" and has(p, "blockon"),
    # F20: join returns before the joined thread's thread-local destructors ran: a load after the join
    # still sees the value from before the destructor's store
    "join-before-tls-destructors": lambda p, kind, o: kind == "forbidden" and "tlsdtor=1" in p and verdict(o) == "ok"
    and load_after_join_unset(p, o),
    # F23: the initialiser of a lazy static ran twice (an instance id ≥ 2 is visible)
    "lazy-init-runs-twice": lambda p, kind, o: kind == "forbidden" and verdict(o) == "ok" and lazy_raced(p, o),
    # F24: which thread initialises a lazy static is not explored (the access is not a branch point); observable
    # only when the initialiser has a side effect (an atomic is declared)
    "lazy-access-unbranched": lambda p, kind, o: kind == "missing" and has(p, "lazy") and bool(re.search(r"\bx=[1-9]", p))
    and sum(1 for ops in threads_of(p) if any(x[0] == "lazy" for x in ops)) >= 2,
    # F22: lazy statics are torn down when the main closure returns
    "lazy-static-dropped-at-main-exit": lambda p, kind, o: verdict(o) == "lazyShutdown" and unjoined_lazy(p),
    # F11: a failing iteration drops the closure of a thread that never started, and the closure owns a loom handle
    "unstarted-closure-dropped-outside": lambda p, kind, o: kind == "abort" and has(p, "spawnown"),
    # F25: loom's internal modification-order assertion
    "atomic-mo-assertion": lambda p, kind, o: verdict(o).startswith("internal:10") or o.startswith("internal:10"),
    # F12: a leaked raw allocation aborts the process instead of reporting "Allocation leaked"
    "raw-alloc-leak-abort": lambda p, kind, o: kind == "abort" and has(p, "alloc"),
}


def match(finding, prog, kind, outcome):
    sig = SIGNATURES.get(finding.get("class"))
    return bool(sig and sig(prog, kind, outcome))

"""C20 — block_on and AtomicWaker never lose a wake-up."""
from gen import c17c20


def run(ctx):
    ctx.prove(ctx.theorems())
    ctx.build_harness()
    programs = c17c20.c20_family(ctx.seed, ctx.quick)
    # a stray unpark aimed at a thread that is blocked in block_on (after an earlier, real park/unpark round) must only
    # leave a token: block_on re-polls only after a wake (or the one spurious return)
    programs += ["cfg x=2 f=1 | T0: spawn 1; park; fadd 1 1 rlx; blockon 0 0; join 1 | T1: unpark 0; fadd 1 1 rlx; unpark 0; st 0 1 rel; wake 0",
                 "cfg x=2 f=1 | T0: spawn 1; park; st 1 1 rlx; blockon 0 0; join 1 | T1: unpark 0; await 1 1 rlx; unpark 0; st 0 1 rel; wake 0"]
    ctx.assumptions.append("the futures are scripted (harness): poll = check flag (Acquire); register the waker in a "
                           "mutex-protected slot (mode 0) or an AtomicWaker (mode 1); check the flag again; the Waker "
                           "vtable plumbing of future::block_on is exercised, not modelled beyond its refcount effects")
    bounded = c17c20.c20_bounded(ctx.seed, ctx.quick)
    ctx.std_flow(programs + bounded, 20000 if ctx.quick else 200000, "safety",
                 lambda impl: ctx.sc_check(programs, impl, 100000 if ctx.quick else 1000000)
                 + ctx.sc_check(bounded, impl, 400000 if ctx.quick else 2000000, completeness=False, exact=True)
                 + ctx.spurious_oracle(programs + bounded, impl),
                 "one blocked future driven by future::block_on and 1-2 waking threads: wake by value / by reference / "
                 "through AtomicWaker / through clones the wakers keep, before, during and after poll and registration, "
                 "waker dropped without wake, only the flag set, a relaxed payload that reaches the future only through "
                 "the wake (two wakers, preemption-bounded), the same future driven by consecutive block_on calls while a "
                 "registration of the earlier call is still in the shared AtomicWaker (wake must reach the most recently "
                 "registered waker), two futures waking each other, nobody waking (deadlock expected); outcomes and verdicts "
                 "must equal the reference (Spec/SC.lean: block_on as poll / register / re-check / wait phases); an execution "
                 "takes at most one spurious return per block_on call (counted in its decision path); every "
                 "iteration replayed on the twin; non-trivial = more than one iteration")
    ctx.witness_check()

"""Common part of every check: proof audit, correspondence, violation protocol, evidence."""
import hashlib
import json
import os
import re
import subprocess
import sys

import lvlib

ALLOWED_AXIOMS = {"propext", "Classical.choice", "Quot.sound"}
FORBIDDEN = [r"\bsorry\b", r"\badmit\b", r"^\s*axiom\s", r"\bnative_decide\b", r"\bbv_decide\b",
             r"\bimplemented_by\b", r"\bunsafe\s", r"maxHeartbeats\s+0"]
EVIDENCE_DIR = os.path.join(lvlib.VERIF, "evidence")
if os.environ.get("LV_DEV_SKIP_PROOFS") == "1":
    # development runs (proof audit skipped) must never overwrite the evidence of the registered commands
    EVIDENCE_DIR = os.path.join(lvlib.BUILD, "evidence-dev")
REPLAY_DIR = os.path.join(lvlib.VERIF, "replays")
KNOWN_FILE = os.path.join(lvlib.VERIF, "known_findings.txt")

TRUSTED_BASE = [
    "Lean 4.33.0 kernel; axioms limited to propext, Classical.choice, Quot.sound (checked per "
    "theorem with #print axioms on every run); no sorry/admit/native_decide/added axioms",
    "the hand-written Lean model lean/LoomVerif/Model/* of /repo/src/rt/* and of the API glue: "
    "modelled, not verified; tied to the code only by the correspondence runs of this check",
    "the reference semantics Spec/SC.lean and Spec/RC11.lean are specifications (trusted as such); the SC enumerator "
    "Oracle/SCEnumV.lean is PROVED sound and complete for Spec/SC.lean when it reports 'not capped' (Props/Oracle.lean); "
    "the RC11 enumerator Oracle/RC11EnumV.lean is PROVED sound and complete for Spec/RC11.lean (all reachable complete "
    "pre-executions x all modification orders x Graph.consistent) when it reports 'not capped' (Props/OracleRC11.lean); "
    "the generation of pre-executions (Oracle/RC11Enum.lean pstep: every read may return any value written to its "
    "location) is part of the specification",
    "the Rust harness /verif/harness (DSL interpreter over the real loom API, record printer), the "
    "verif-hooks dump code in /repo, the Python orchestrator (generation, diffing, classification)",
    "clocks/counters are Nat in the model and u16/usize in the code (no overflow below "
    "max_branches); rt/scheduler.rs coroutines, unwinding mechanics and tracing are not modelled",
]


def strip_comments(src):
    src = re.sub(r"/-.*?-/", "", src, flags=re.S)
    return re.sub(r"--.*", "", src)


def load_known():
    """known_findings.txt: lines `finding: {json}` (keys property, id, class, kind, witness, outcome,
    what) and `fixed: property=Cxx <commit> <what failed>`.  Never written at run time."""
    out = []
    if not os.path.exists(KNOWN_FILE):
        return out
    for line in open(KNOWN_FILE):
        line = line.strip()
        if line.startswith("finding:"):
            out.append(json.loads(line[len("finding:"):]))
    return out


# checks whose verdicts use the enumerated reference interleaving semantics (Spec/SC.lean via Oracle/SCEnumV.lean)
REFINE_USERS = {"C05", "C07"}
SC_ORACLE_USERS = {"C01", "C04", "C05", "C06", "C07", "C08", "C09", "C10", "C11", "C15", "C17", "C18", "C19", "C20"}


class Ctx:
    def __init__(self, pid, tier, seed):
        self.pid, self.tier, self.seed = pid, tier, seed
        self.timer = lvlib.Timer()
        self.violations = []
        self.known_lines = []
        self._recheck = {}
        self.cov = {"obligations": 0, "discharged": 0, "checker_cmd": "", "trusted_base": list(TRUSTED_BASE),
                    "programs": 0, "evaluations": 0, "distinct_nontrivial": 0, "rule": "",
                    "disagreements_checked": 0, "traces_validated_against_impl": 0, "samples": [],
                    "theorems": [], "findings_observed": {}, "skipped_for_size": 0,
                    "distribution": {}}
        self.assumptions = []
        self.known = [k for k in load_known() if k.get("property") == pid]
        self.quick = tier != "thorough"

    # ------------------------------------------------------------------ proofs
    def prove(self, theorems, statuses=None):
        """Build Props/<pid> and audit the axioms of the listed theorems.
        `theorems`: fully qualified names that must exist.  A missing theorem, a foreign axiom or a
        forbidden token is a broken proof obligation."""
        pid = self.pid
        if os.environ.get("LV_DEV_SKIP_PROOFS") == "1":
            # development aid only (never used by the registered commands): exercise the correspondence
            # while proofs are being repaired; the run is marked as not discharging anything
            lvlib.build_lean(["lvdriver"])
            self.cov["obligations"] = len(theorems)
            self.cov["discharged"] = 0
            self.violation("proof-obligation", {"broken": ["proof audit skipped (LV_DEV_SKIP_PROOFS=1)"]}, found_input=False)
            return False
        # theorems shared by several properties are audited with the property's own: the soundness/completeness of
        # the reference enumerator (Props/Oracle.lean) for every check that judges outcomes against it, and the
        # refinement "twin runs over the lock fragment are reference executions" (Props/Refine.lean) for the lock
        # and deadlock properties
        shared = [(k, mod) for k, mod, users in (("ORACLE", "Oracle", SC_ORACLE_USERS), ("REFINE", "Refine", REFINE_USERS),
                                                 ("DEADLOCK", "Deadlock", {"C05"}),
                                                 ("REFINE2", "Refine2", {"C08", "C09"}),
                                                 ("RACE", "Race", {"C04"}),
                                                 ("RACE2", "Race2", {"C04"}),
                                                 ("DEADLOCK2", "Deadlock2", {"C05"}),
                                                 ("REFINE3", "Refine3", {"C10", "C11"}),
                                                 ("REFINE4", "Refine4", {"C20"}),
                                                 ("DEADLOCK3", "Deadlock3", {"C05", "C20"}),
                                                 ("ORACLE_RC11", "OracleRC11", {"C02", "C03", "C04", "C16"}),
                                                 ("VCSOUND", "VCSound", {"C04"}),
                                                 ("RACEDECL", "RaceDecl", {"C04"}),
                                                 ("REFINE5", "Refine5", {"C17"}))
                  if pid in users]
        table = json.load(open(os.path.join(lvlib.VERIF, "checks", "theorems.json")))
        theorems = list(theorems)
        for k, _mod in shared:
            theorems += table[k]
        lvlib.build_lean([f"LoomVerif.Props.{pid}", "lvdriver"] + [f"LoomVerif.Props.{mod}" for _k, mod in shared])
        audit = os.path.join(lvlib.LEAN_DIR, "LoomVerif", "Audit", f"{pid}.lean")
        cmd = ["lake", "env", "lean", audit]
        r = subprocess.run(cmd, cwd=lvlib.LEAN_DIR, stdout=subprocess.PIPE, stderr=subprocess.STDOUT, text=True)
        for _k, mod in shared:
            r2 = subprocess.run(["lake", "env", "lean", os.path.join(lvlib.LEAN_DIR, "LoomVerif", "Audit", mod + ".lean")],
                                cwd=lvlib.LEAN_DIR, stdout=subprocess.PIPE, stderr=subprocess.STDOUT, text=True)
            r.stdout += "\n" + r2.stdout
            r.returncode = r.returncode or r2.returncode
        self.cov["checker_cmd"] = (f"cd /verif/lean && lake build LoomVerif.Props.{pid} && "
                                   f"lake env lean LoomVerif/Audit/{pid}.lean")
        found = {}
        for m in re.finditer(r"'([^']+)' (?:depends on axioms: \[([^\]]*)\]|does not depend on any axioms)",
                             r.stdout):
            axs = set(a.strip() for a in (m.group(2) or "").replace("\n", " ").split(",") if a.strip())
            found[m.group(1)] = axs
        self.cov["obligations"] = len(theorems)
        bad = []
        ok = 0
        for t in theorems:
            if t not in found:
                bad.append(f"{t}: missing from the audit (theorem absent or does not compile)")
            elif not found[t] <= ALLOWED_AXIOMS:
                bad.append(f"{t}: foreign axioms {sorted(found[t] - ALLOWED_AXIOMS)}")
            else:
                ok += 1
        if r.returncode != 0:
            bad.append("audit file does not compile: " + r.stdout[-600:])
        # forbidden tokens anywhere in the Lean sources
        for root, _d, files in os.walk(os.path.join(lvlib.LEAN_DIR, "LoomVerif")):
            for f in files:
                if f.endswith(".lean"):
                    src = strip_comments(open(os.path.join(root, f)).read())
                    for pat in FORBIDDEN:
                        if re.search(pat, src, flags=re.M):
                            bad.append(f"{os.path.join(root, f)}: forbidden token /{pat}/")
        self.cov["discharged"] = ok
        st = statuses or {}
        self.cov["theorems"] = [{"name": t, "status": st.get(t, "full"),
                                 "axioms": sorted(found.get(t, []))} for t in theorems]
        if self.tier == "thorough":
            rc = subprocess.run(["lake", "env", "leanchecker", f"LoomVerif.Props.{pid}"], cwd=lvlib.LEAN_DIR,
                                stdout=subprocess.PIPE, stderr=subprocess.STDOUT, text=True)
            self.cov["leanchecker_rc"] = rc.returncode
            if rc.returncode != 0:
                bad.append("leanchecker rejected the module: " + rc.stdout[-400:])
        if bad:
            self.violation("proof-obligation", {"broken": bad}, found_input=False)
        return not bad

    # ------------------------------------------------------------------ correspondence
    def build_harness(self):
        lvlib.build_harness()

    def correspond(self, programs, max_iters, view="explore"):
        """Run the programs on the implementation and on the twin and compare the records.
        view = "explore": the whole exploration must be identical (every iteration, every path).
        view = "safety":  if the explorations differ, every implementation iteration is replayed
        decision for decision on the twin and only the safety view (returns, clocks, status arrays,
        object states without DPOR fields, termination class) is compared.
        Returns (impl records, list of disagreements)."""
        self._cap = max_iters
        impl = lvlib.run_impl(programs, max_iters=max_iters)
        twin = lvlib.run_twin(programs, max_iters=max_iters)
        dis = []
        differing = []
        for p in programs:
            a, b = impl.get(p, []), twin.get(p, [])
            if a and a[-1].startswith("DONE ? "):
                self.cov["implementation_died"] = self.cov.get("implementation_died", 0) + 1
                continue        # reported through the oracle as an `abort` failure
            if a != b:
                differing.append(p)
        self.cov["disagreements_checked"] += len(programs)
        if differing and view == "safety":
            still = self.replay_compare(differing, max_iters)
            for p, d in still:
                dis.append({"program": p, "kind": "safety-replay", **d})
            self.cov.setdefault("exploration_differs_safety_equal", 0)
            self.cov["exploration_differs_safety_equal"] += len(differing) - len(still)
        else:
            for p in differing:
                d = lvlib.first_diff(impl.get(p, []), twin.get(p, []))
                dis.append({"program": p, "kind": "explore", "line": d[0], "impl": d[1][:400],
                            "twin": d[2][:400]})
        return impl, twin, dis

    def spurious_oracle(self, programs, impl):
        """the one modelled spurious return: every `sync::Notify` and every `block_on` call owns one Notify that may
        return spuriously at most once per execution, so an execution's decision path holds at most (number of Notify
        objects + number of block_on calls) spurious decisions that were taken (`U1` entries of the path)"""
        from checks import findings as F
        out = []
        for p in programs:
            m = re.search(r"\bn=(\d+)", p.split("|")[0])
            budget = (int(m.group(1)) if m else 0) + sum(1 for ops in F.threads_of(p) for o in ops if o[0] == "blockon")
            its, _done = lvlib.iterations(impl.get(p, []))
            for it in its:
                taken = sum(1 for e in it.get("view", []) if e == "U1")
                if taken > budget:
                    out.append((p, "forbidden", f"iteration {it['idx']} takes {taken} spurious returns; the program has only "
                                f"{budget} Notify objects / block_on calls, each allowed one"))
                    break
        return out

    def model_path_search(self, programs, max_iters, limit=3):
        """Search for a failing input after the correspondence of an exploration property broke: an execution that the
        MODEL's exploration visits (its decision path is known) and the implementation's exploration does not.
        For each such program: take a result the twin explores and the implementation never produces, hand the twin's
        decision path of that iteration to the IMPLEMENTATION as a checkpoint and let it execute exactly that path.  If
        the implementation completes the path with that very result, the execution is one of the real code (valid,
        reachable by the decisions in the path), and it is missing from the implementation's own exploration.
        Returns [(program, outcome, path_json)].  Never runs on the unchanged tree (the explorations are equal)."""
        import hashlib, shutil
        found = []
        ckdir = os.path.join(lvlib.BUILD, "ckpt-search-" + self.pid)
        shutil.rmtree(ckdir, ignore_errors=True)
        os.makedirs(ckdir)
        for p in programs:
            if len(found) >= limit or "ckpt=" in p:
                break
            a = lvlib.run_impl([p], max_iters=max_iters)
            b = lvlib.run_twin([p], starts=True, max_iters=max_iters)
            ia, da = lvlib.iterations(a.get(p, []))
            ib, db = lvlib.iterations(b.get(p, []))
            if not da or not db or da[1] != "ok" or db[1] != "ok":
                continue
            explored = set(lvlib.outcome_str(it) for it in ia)
            for it in ib:
                o = lvlib.outcome_str(it)
                if o in explored or "start" not in it:
                    continue
                name = hashlib.sha1(f"{p}#{it['idx']}".encode()).hexdigest()[:16] + ".json"
                open(os.path.join(ckdir, name), "w").write(it["start"])
                q = p.replace("cfg ", f"cfg ckpt={name} ", 1)
                r = subprocess.run([lvlib.HARNESS_BIN, "run", "--max", "1", "--ckpt-dir", ckdir], input=q + "\n",
                                   stdout=subprocess.PIPE, stderr=subprocess.DEVNULL, text=True)
                its2, _ = lvlib.iterations(lvlib._split_records(r.stdout).get(q, []))
                self.cov["traces_validated_against_impl"] += 1
                if its2 and lvlib.outcome_str(its2[0]) == o:
                    found.append((p, o, it["start"]))
                    break
        shutil.rmtree(ckdir, ignore_errors=True)
        return found

    def replay_compare(self, programs, max_iters):
        """decision replay: twin re-executes each implementation iteration from its start path.
        Done program by program on all cores, within a budget of iterations (a change that makes every program
        differ must not exhaust memory); what is beyond the budget stays 'differing'."""
        from concurrent.futures import ThreadPoolExecutor
        budget = [60000 if self.quick else 600000]

        def one(p):
            impl = lvlib.run_impl([p], starts=True, max_iters=max_iters)
            its, _done = lvlib.iterations(impl.get(p, []))
            todo = [it for it in its if "start" in it]
            if budget[0] < len(todo):
                return p, {"iteration": 0, "impl": "", "twin": "not replayed (replay budget of this tier exhausted)"}
            budget[0] -= len(todo)
            inp = ["PROG " + p] + ["S " + it["start"] for it in todo]
            r = subprocess.run([lvlib.DRIVER_BIN, "replay"], input="\n".join(inp) + "\n", stdout=subprocess.PIPE,
                               stderr=subprocess.DEVNULL, text=True)
            blocks = r.stdout.split("END\n")
            if len(blocks) - 1 != len(todo):
                return p, {"iteration": 0, "impl": "", "twin": "replay driver failed"}
            for it, blk in zip(todo, blocks):
                tl = [l for l in blk.split("\n") if l and not l.startswith("XE ")]
                il = [l for l in it["lines"] if not l.startswith("XE ") and not l.startswith("S ")]
                if tl != il:
                    d = lvlib.first_diff(il, tl)
                    return p, {"iteration": it["idx"], "impl": d[1][:400], "twin": d[2][:400], "start": it.get("start")}
            return p, None

        with ThreadPoolExecutor(max_workers=lvlib.NPROC) as ex:
            res = list(ex.map(one, programs))
        return [(p, d) for p, d in res if d is not None]

    # ------------------------------------------------------------------ reference outcomes
    def sc_check(self, programs, impl, max_states, soundness=True, completeness=True, exact=False, _record=True):
        """Compare the implementation's explored outcomes with the outcomes of the reference
        interleaving semantics (Spec/SC.lean).  Returns a list of failures
        (program, kind, outcome) with kind in forbidden / missing / missed_failure."""
        from checks import findings as F
        sc = lvlib.run_sc(programs, max_states)
        failures = []
        stats = {"compared": 0, "skipped_for_size": 0, "sound_checked": 0, "reference_states": 0}
        for p in programs:
            its, done = lvlib.iterations(impl.get(p, []))
            outs, capped, states = sc.get(p, (set(), True, 0))
            stats["reference_states"] += states
            if exact and not capped and done and done[0] != "?":
                # every explored iteration (also of a capped or bounded exploration, also the failing one) must
                # show exactly an outcome of the reference: valid for programs whose visible results cannot be
                # stale (RMW results, lock-protected values)
                stats["compared"] += 1
                stats["sound_checked"] += 1
                bad = [o for o in (lvlib.outcome_str(it) for it in its) if o not in outs]
                if bad:
                    failures.append((p, "forbidden", bad[-1] if not bad[-1].startswith("ok") else bad[0]))
                continue
            if capped or not done or done[1] == "capped":
                stats["skipped_for_size"] += 1
                continue
            if done[0] == "?":
                failures.append((p, "abort", done[1]))
                continue
            stats["compared"] += 1
            explored = [lvlib.outcome_str(it) for it in its]
            eset = set(explored)
            missed = sorted(o for o in outs if not o.startswith("ok") and o not in eset) \
                if (completeness and done[1] == "ok") else []
            if missed:
                # executions that should have failed: what the implementation returns instead is not
                # judged separately
                failures.append((p, "missed_failure", missed[0]))
                continue
            if soundness and not F.shared_atomic_rw(p) and not F.has(p, "fence"):
                stats["sound_checked"] += 1
                vclasses = set(o.split(" ")[0].split(":")[0] for o in outs)
                # a failing iteration is judged by the class of its failure (where exactly the failure is
                # detected depends on the detector), a passing one by everything it returned
                bad = [o for o in explored if (o not in outs if o.startswith("ok")
                                               else o.split(" ")[0].split(":")[0] not in vclasses)]
                if bad:
                    # prefer the failing iteration as the exhibit
                    failures.append((p, "forbidden", bad[-1] if not bad[-1].startswith("ok") else bad[0]))
            elif soundness and done[1] != "ok":
                # with weakly ordered atomics only the class of a failure is judged by this reference
                stats["sound_checked"] += 1
                verdicts = set(o.split(" ")[0].split(":")[0] for o in outs)
                mine = explored[-1].split(" ")[0].split(":")[0]
                if mine not in verdicts:
                    failures.append((p, "forbidden", explored[-1]))
            if completeness and done[1] == "ok":
                miss = sorted(o for o in outs if o not in eset)
                fail = [o for o in miss if not o.startswith("ok")]
                if fail:
                    failures.append((p, "missed_failure", fail[0]))
                elif miss:
                    failures.append((p, "missing", miss[0]))
        if not _record:
            return failures
        for p, _k, _o in failures:
            self._recheck[p] = lambda q, a=(max_states, soundness, completeness, exact): self.sc_check(
                [q], lvlib.run_impl([q], max_iters=getattr(self, "_cap", 20000)), a[0], a[1], a[2], a[3], _record=False)
        for k, v in stats.items():
            self.cov.setdefault("reference", {})
            self.cov["reference"][k] = self.cov["reference"].get(k, 0) + v
        return failures

    def rc11_check(self, programs, impl, lower=True, upper=True, races=False, _record=True):
        """Compare explored outcomes with RC11 (Spec/RC11.lean): every outcome of the `strong`
        instance must be explored (lower bound, C02), every explored outcome must be an outcome of
        the `doc` instance (upper bound, C03).  With races=True only the verdicts are compared
        (C04): a causality panic iff some consistent execution has a data race."""
        L = lvlib.run_rc11(programs, "strong") if lower else {}
        U = lvlib.run_rc11(programs, "doc") if upper else {}
        failures = []
        stats = {"compared": 0, "skipped_for_size": 0, "graphs_checked": 0}
        for p in programs:
            its, done = lvlib.iterations(impl.get(p, []))
            lo, ls, lg = L.get(p, (set(), "ok", 0)) if lower else (set(), "ok", 0)
            uo, us, ug = U.get(p, (set(), "ok", 0)) if upper else (set(), "ok", 0)
            stats["graphs_checked"] += lg + ug
            if ls != "ok" or us != "ok" or not done or done[1] == "capped":
                stats["skipped_for_size"] += 1
                continue
            if done[0] == "?":
                failures.append((p, "abort", done[1]))
                continue
            stats["compared"] += 1
            explored = set(lvlib.outcome_str_rc11(it) for it in its)
            if races:
                racy_impl = done[1].startswith("causality")
                if upper and racy_impl and "causality" not in uo:
                    failures.append((p, "forbidden", "causality"))
                if lower and "causality" in lo and not racy_impl and done[1] == "ok":
                    failures.append((p, "missed_failure", "causality"))
                continue
            if upper:
                bad = sorted(explored - uo)
                if bad:
                    failures.append((p, "forbidden", bad[0]))
            if lower and done[1] == "ok":
                miss = sorted(lo - explored)
                if miss:
                    failures.append((p, "missing", miss[0]))
        if not _record:
            return failures
        for p, _k, _o in failures:
            self._recheck[p] = lambda q, a=(lower, upper, races): self.rc11_check(
                [q], lvlib.run_impl([q], max_iters=getattr(self, "_cap", 20000)), a[0], a[1], a[2], _record=False)
        self.cov.setdefault("reference", {})
        for k, v in stats.items():
            self.cov["reference"][k] = self.cov["reference"].get(k, 0) + v
        return failures

    # ------------------------------------------------------------------ shrinking
    @staticmethod
    def removals(prog):
        """programs obtained by deleting one operation (an `ifeq` that refers to / jumps over the deleted operation
        is adjusted; the operation an `ifeq` refers to is never deleted)"""
        head, *ths = prog.split(" | ")
        bodies = [t.split(": ", 1)[1].split("; ") if ": " in t else [] for t in ths]
        out = []
        for t, ops in enumerate(bodies):
            for j in range(len(ops)):
                new, ok = [], True
                for k, o in enumerate(ops):
                    if k == j:
                        continue
                    a = o.split()
                    if a and a[0] == "ifeq":
                        i, n = int(a[1]), int(a[3])
                        if j == k - i:
                            ok = False
                            break
                        if k - i < j < k:
                            i -= 1
                        if k < j <= k + n:
                            n -= 1
                        o = f"ifeq {i} {a[2]} {n}"
                    new.append(o)
                if ok:
                    nb = bodies[:t] + [new] + bodies[t + 1:]
                    out.append(head + " | " + " | ".join((f"T{k}: " + "; ".join(b)).rstrip() for k, b in enumerate(nb)))
        return out

    def shrink(self, prog, kind, outcome="", budget=80):
        """greedy one-operation-at-a-time minimisation of a failing input: a smaller program is kept if the same
        oracle reports a failure of the same kind on it"""
        recheck = self._recheck.get(prog)
        if recheck is None:
            return None
        cur, improved = prog, True
        while improved and budget > 0:
            improved = False
            for cand in self.removals(cur):
                budget -= 1
                if budget <= 0:
                    break
                try:
                    f = recheck(cand)
                except Exception:
                    continue
                # the same kind of failure with the same verdict (so that the minimised program fails for the same
                # reason, not because deleting an operation made it meaningless)
                v = outcome.split(" ")[0].split(":")[0]
                if any(k == kind and (not v or o.split(" ")[0].split(":")[0] == v) for (_q, k, o) in f) \
                        and "spawn" in cand.split("|")[1]  == ("spawn" in prog.split("|")[1]):
                    cur, improved = cand, True
                    break
        return cur if cur != prog else None

    def attribute(self, failures, differing, extra=None):
        """known-finding protocol: a failure is attributed to a listed finding only on a program on
        which implementation and twin agree and whose shape matches the finding's signature"""
        from checks import findings as F
        unlisted = 0
        for p, kind, outcome in failures:
            fid = None
            for k in self.known:
                if F.match(k, p, kind, outcome):
                    fid = k["id"]
                    break
            if fid and kind == "abort":
                # a dead process cannot equal the twin; the witness re-run decides whether it is the listed one
                self.note_finding(fid)
                continue
            if fid and p in differing:
                # the program shows a listed defect AND a deviation from the twin: the failure cannot be
                # told apart from the listed one, so it is not offered as the failing input; the
                # deviation itself is reported by the caller (correspondence)
                self.cov["ambiguous_on_differing_programs"] = self.cov.get("ambiguous_on_differing_programs", 0) + 1
                continue
            if fid:
                self.note_finding(fid)
            else:
                unlisted += 1
                if unlisted <= 5:
                    mini = self.shrink(p, kind, outcome) if unlisted <= 2 else None
                    self.violation("oracle-" + kind,
                                   {"outcome": outcome, "implementation_equals_twin": p not in differing,
                                    **({"minimized_program": mini} if mini else {}),
                                    "note": "outcome is in the format of Spec/SC.lean: verdict, then thread:pc=result",
                                    **(extra or {})}, found_input=True, program=p)
        return unlisted

    def std_flow(self, programs, cap, view, failures_fn, rule, nontrivial_fn=None, sample_fn=None):
        """the common shape of a check: correspondence, oracle, attribution, witnesses, coverage"""
        self.cov["rule"] = rule
        impl, twin, dis = self.correspond(programs, cap, view=view)
        differing = {d["program"] for d in dis}
        failures = failures_fn(impl)
        unlisted = self.attribute(failures, differing)
        nontrivial = 0
        dist = {}
        for p in programs:
            its, done = lvlib.iterations(impl.get(p, []))
            self.cov["evaluations"] += len(its)
            self.cov["traces_validated_against_impl"] += len(its)
            k = done[1] if done else "none"
            dist[k] = dist.get(k, 0) + 1
            if (nontrivial_fn(p, its, done) if nontrivial_fn else len(its) > 1):
                nontrivial += 1
            if len(its) > 1 and len(self.cov["samples"]) < 4:
                self.sample(sample_fn(p, its) if sample_fn else
                            {"program": p, "iterations": len(its),
                             "outcomes": sorted(set(lvlib.outcome_str(i) for i in its))[:3]})
        if dis and not unlisted:
            thms = [t["name"] for t in self.cov["theorems"]]
            for d in dis[:3]:
                self.violation("correspondence", {"disagreement": d, "rests_on_it": thms},
                               found_input=False, program=d["program"])
        self.cov["programs"] = len(programs)
        self.cov["distinct_nontrivial"] = nontrivial
        self.cov["distribution"] = {"result": dist, "oracle_failures": len(failures), "disagreements": len(dis)}
        return impl, failures

    def theorems(self):
        return json.load(open(os.path.join(lvlib.VERIF, "checks", "theorems.json")))[self.pid]

    def witness_check(self, max_iters=20000, max_states=400000):
        """re-run the witness of every listed finding of this property; print KNOWN-FINDING iff it
        still fails on the implementation"""
        ws = [k for k in self.known if k.get("witness") and k.get("kind") in
              ("missing", "forbidden", "missed_failure", "abort", "badverdict")]
        if not ws:
            return
        progs = list(dict.fromkeys(k["witness"] for k in ws))
        impl = lvlib.run_impl(progs, max_iters=max_iters)
        sc = lvlib.run_sc([k["witness"] for k in ws if k.get("oracle", "sc") == "sc"], max_states)
        rcs = lvlib.run_rc11([k["witness"] for k in ws if k.get("oracle") == "rc11-strong"], "strong")
        rcd = lvlib.run_rc11([k["witness"] for k in ws if k.get("oracle") == "rc11-doc"], "doc")
        for k in ws:
            p = k["witness"]
            its, done = lvlib.iterations(impl.get(p, []))
            orc = k.get("oracle", "sc")
            if orc == "sc":
                outs, _capped, _ = sc.get(p, (set(), True, 0))
                explored = set(lvlib.outcome_str(it) for it in its)
            else:
                outs = (rcs if orc == "rc11-strong" else rcd).get(p, (set(), "abort", 0))[0]
                explored = set(lvlib.outcome_str_rc11(it) for it in its)
            kind, o = k["kind"], k.get("outcome", "")
            if kind == "missing":
                still = done and done[1] == "ok" and o in outs and o not in explored
            elif kind == "forbidden":
                still = o in explored and o not in outs
            elif kind == "missed_failure":
                still = done and done[1] == "ok" and any(x.startswith(o) for x in outs)
            elif kind == "badverdict":
                verdicts = set(x.split(" ")[0] for x in outs)
                still = bool(done) and done[1] == o and lvlib.verdict_class(done[1]) not in verdicts
            else:
                still = bool(done) and done[0] == "?"
            if still:
                self.known_finding(k["id"], k.get("what", ""))
            else:
                self.cov.setdefault("findings_not_reproduced", []).append(k["id"])

    # ------------------------------------------------------------------ protocol
    def violation(self, kind, detail, found_input, program=None):
        os.makedirs(REPLAY_DIR, exist_ok=True)
        body = {"property": self.pid, "kind": kind, "found_failing_input": found_input,
                "program": program, "detail": detail, "tier": self.tier, "seed": self.seed}
        h = hashlib.sha1(json.dumps(body, sort_keys=True).encode()).hexdigest()[:12]
        path = os.path.join(REPLAY_DIR, f"{self.pid}-{h}.json")
        lvlib.write_json(path, body)
        self.violations.append((path, found_input))

    def broken(self, what, text):
        self.violation("machinery-" + what, {"error": text[-3000:]}, found_input=False)

    def known_finding(self, fid, what):
        line = f"KNOWN-FINDING: property={self.pid} {fid} {what}"
        if line not in self.known_lines:
            self.known_lines.append(line)

    def note_finding(self, fid, n=1):
        self.cov["findings_observed"][fid] = self.cov["findings_observed"].get(fid, 0) + n

    def sample(self, obj):
        if len(self.cov["samples"]) < 6:
            self.cov["samples"].append(obj)

    def finish(self):
        for l in self.known_lines:
            print(l)
        # at most a handful of lines; every violation has its replay file.  When a concrete failing
        # input was found, the broken correspondences that led to it are not listed separately.
        shown = [v for v in self.violations if v[1]][:5] or self.violations[:3]
        for path, found in shown:
            print(f"VIOLATION property={self.pid} replay={path}" + ("" if found else " no-failing-input-found"))
        ev = {"property_id": self.pid, "tier": "thorough" if self.tier == "thorough" else "quick",
              "seed": self.seed, "level": "proof", "coverage": self.cov, "assumptions": self.assumptions,
              "wall_s": self.timer.s(), "violations": len(self.violations)}
        if not self.cov["samples"]:
            self.cov["samples"] = ["(no case reached)"]
        lvlib.write_json(os.path.join(EVIDENCE_DIR, f"{self.pid}.json"), ev)
        sys.stdout.flush()
        return 1 if self.violations else 0


def replay(path):
    body = json.load(open(path))
    print(json.dumps(body, indent=1)[:4000])
    prog = body.get("program")
    if prog:
        lvlib.build_harness()
        impl = lvlib.run_impl([prog], full=True, max_iters=2000)
        twin = lvlib.run_twin([prog], full=True, max_iters=2000)
        a, b = impl.get(prog, []), twin.get(prog, [])
        d = lvlib.first_diff(a, b)
        print("implementation vs twin:", "identical" if d is None else f"first difference at record {d[0]}")
        if d:
            print("  impl:", d[1][:600])
            print("  twin:", d[2][:600])
        its, done = lvlib.iterations(a)
        print("implementation result:", done, "iterations:", len(its))
        # the reference outcomes and how the explored outcomes relate to them (when the oracle was the interleaving
        # reference; RC11-judged properties print their own outcome format in the replay body)
        try:
            outs, capped, states = lvlib.run_sc([prog], 400000).get(prog, (set(), True, 0))
            explored = set(lvlib.outcome_str(it) for it in its)
            print(f"reference (Spec/SC.lean): {len(outs)} outcomes, {states} states" + (" (capped)" if capped else ""))
            for o in sorted(explored - outs)[:5]:
                print("  explored, not in the reference:", o)
            for o in sorted(outs - explored)[:5]:
                print("  in the reference, not explored:", o)
        except Exception as e:          # noqa: BLE001
            print("reference not available:", e)
        for key in ("minimized_program",):
            if key in body.get("detail", {}):
                print(key + ":", body["detail"][key])
    return 0

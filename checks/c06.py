"""C06 — a failure in any explored execution fails the model run, and only then."""
import lvlib
from gen import families, progs


def with_panics(p, r, limit):
    head, *ths = p.split(" | ")
    head = head.replace("cfg", "cfg unwind=1", 1)
    bodies = [t.split(": ", 1)[1].split("; ") if ": " in t else [] for t in ths]
    out = []
    for t, ops in enumerate(bodies):
        for i in range(len(ops) + 1):
            if any(o.startswith("ifeq") for o in ops[max(0, i - 1):i]):
                continue
            # an `ifeq` that would jump over the inserted op must skip one more
            new = []
            for j, o in enumerate(ops[:i]):
                if o.startswith("ifeq"):
                    a = o.split()
                    if j + 1 + int(a[3]) > i - 0 and j + 1 <= i <= j + int(a[3]):
                        o = f"ifeq {a[1]} {a[2]} {int(a[3]) + 1}"
                new.append(o)
            new = new + ["panic"] + ops[i:]
            nb = bodies[:t] + [new] + bodies[t + 1:]
            out.append(head + " | " + " | ".join((f"T{k}: " + "; ".join(b)).rstrip() for k, b in enumerate(nb)))
    if len(out) > limit:
        idx = sorted(range(len(out)), key=lambda k: (r.next(), k))[:limit]
        out = [out[k] for k in sorted(idx)]
    return out


def family(ctx):
    r = progs.Rng(ctx.seed ^ 0xC06)
    n = 10 if ctx.quick else 150
    base = []
    for kind in ("atomic", "mutex", "rwlock", "condvar", "notify", "channel", "arc"):
        base += families.exhaustive(kind, 2, 2, n, r.fork(kind))
    out = []
    for p in dict.fromkeys(base):
        out += with_panics(p, r, 5 if ctx.quick else 30)
        out.append(p.replace("cfg", "cfg unwind=1", 1))
    # panics raised by loom itself while guards / handles are alive, and at the branch limit
    out += [
        "cfg unwind=1 m=2 | T0: spawn 1; lock 0; lock 1; unlock 1; unlock 0; join 1 | T1: lock 1; lock 0; unlock 0; unlock 1",
        "cfg unwind=1 c=1 m=1 | T0: spawn 1; lock 0; cwr 0 1; unlock 0; join 1 | T1: cwr 0 2",
        "cfg unwind=1 maxbr=6 x=1 | T0: spawn 1; st 0 1 rlx; st 0 2 rlx; st 0 3 rlx; join 1 | T1: ld 0 rlx; ld 0 rlx; ld 0 rlx",
        "cfg unwind=1 maxbr=4 m=1 | T0: spawn 1; lock 0; join 1; unlock 0 | T1: lock 0; unlock 0",
        "cfg unwind=1 | T0: anew 0; aclone 0 1; spawn 1; panic | T1: adrop 1",
        "cfg unwind=1 | T0: anew 0; aclone 0 1; spawn 1; adrop 0; join 1 | T1: panic",
        "cfg unwind=1 | T0: tnew 0; panic",
        "cfg unwind=1 l=1 | T0: spawn 1; wr 0; join 1; unwr 0 | T1: panic",
        "cfg unwind=1 l=1 | T0: spawn 1; wr 0; join 1; unwr 0 | T1: wr 0; unwr 0",
        "cfg unwind=1 l=1 | T0: spawn 1; rd 0; join 1; unrd 0 | T1: wr 0; unwr 0",
        "cfg unwind=1 m=1 | T0: anew 0; spawn 1; lock 0; join 1; unlock 0; adrop 0 | T1: lock 0; unlock 0",
        "cfg unwind=1 m=1 | T0: spawn 1; lock 0; join 1; unlock 0 | T1: lock 0; unlock 0",
        "cfg unwind=1 m=1 | T0: tnew 0; spawn 1; lock 0; join 1; unlock 0; tdrop 0 | T1: lock 0; unlock 0",
        # the closure of a thread that never started owns an Arc handle when the iteration fails (finding F11: repaired)
        "cfg unwind=1 | T0: anew 0; aclone 0 1; spawnown 1 1; panic | T1: adrop 1",
        "cfg unwind=1 | T0: anew 0; aclone 0 1; aclone 0 2; spawnown 1 1; spawnown 2 2; panic | T1: adrop 1 | T2: adrop 2",
        "cfg unwind=1 c=1 | T0: anew 0; aclone 0 1; spawnown 1 1; spawn 2; cwr 0 1; join 2 | T1: adrop 1 | T2: cwr 0 2",
        # values owned by the execution (thread-locals whose destructor performs a loom operation, lazy statics) alive
        # when an iteration fails (finding F28: repaired)
        "cfg unwind=1 tlsdtor=1 x=1 | T0: tls 0; panic",
        "cfg unwind=1 tlsdtor=1 x=1 | T0: spawn 1; tls 1; join 1 | T1: tls 0; panic",
        "cfg unwind=1 tlsdtor=1 x=1 | T0: spawn 1; join 1; panic | T1: tls 0",
        "cfg unwind=1 tlsdtor=1 x=1 m=2 | T0: spawn 1; tls 0; lock 0; lock 1; unlock 1; unlock 0; join 1 | T1: tls 1; lock 1; lock 0; unlock 0; unlock 1",
        "cfg unwind=1 tlsdtor=2 | T0: tls 0; tls 1; panic",
        "cfg unwind=1 x=1 | T0: lazy 0; panic",
        "cfg unwind=1 x=1 | T0: spawn 1; lazy 0; join 1 | T1: lazy 1; panic",
        # the failure is raised in the thread that owns the resource (findings F8, F12, F13: repaired)
        "cfg unwind=1 n=1 | T0: anew 0; nwait 0",
        "cfg unwind=1 n=1 | T0: tnew 0; nwait 0",
        "cfg unwind=1 n=1 | T0: alloc 0; nwait 0",
        "cfg unwind=1 l=1 n=1 | T0: wr 0; nwait 0",
        "cfg unwind=1 l=1 n=1 | T0: rd 0; nwait 0",
        "cfg unwind=1 m=1 n=1 | T0: lock 0; nwait 0",
        "cfg unwind=1 m=1 v=1 | T0: lock 0; cvwait 0 0",
        "cfg unwind=1 q=1 | T0: send 0 1; recv 0; recv 0",
        "cfg unwind=1 x=1 f=1 | T0: blockon 0 0",
        "cfg unwind=1 x=1 f=1 | T0: blockon 0 1",
        "cfg unwind=1 x=1 f=1 | T0: spawn 1; st 0 1 rel; join 1 | T1: blockon 0 0",
        # the example of the property text: a failure while a thread that has not started owns a handle (F11)
        "cfg unwind=1 | T0: anew 0; aclone 0 1; spawnown 1 1; panic | T1: adrop 1",
        "cfg unwind=1 | T0: anew 0; aclone 0 1; spawnown 1 1; adrop 0; join 1 | T1: adrop 1",
        "cfg unwind=1 | T0: anew 0; aclone 0 1; spawnown 1 1; adrop 0; join 1 | T1: adrop 1; panic",
        "cfg unwind=1 m=1 | T0: anew 0; aclone 0 1; spawnown 1 1; lock 0; lock 0 | T1: adrop 1",
        # a failure raised while a cell section is open on the failing thread's stack
        "cfg unwind=1 c=1 n=1 | T0: crdb 0; nwait 0",
        "cfg unwind=1 c=1 n=1 | T0: cwrb 0 1; nwait 0",
        "cfg unwind=1 c=1 | T0: crdb 0; panic",
        "cfg unwind=1 c=1 | T0: cwrb 0 1; panic",
        "cfg unwind=1 c=1 m=2 | T0: spawn 1; lock 0; crdb 0; lock 1; crde 0; unlock 1; unlock 0; join 1 | T1: lock 1; crdb 0; lock 0; crde 0; unlock 0; unlock 1",
        "cfg unwind=1 c=1 n=2 | T0: spawn 1; crdb 0; nwait 0 | T1: crdb 0; nwait 1",
        "cfg unwind=1 | T0: alloc 0",
        "cfg unwind=1 | T0: alloc 0; panic",
        "cfg unwind=1 | T0: spawn 1; alloc 0; join 1; dealloc 0 | T1: panic",
        "cfg unwind=1 l=1 n=1 | T0: spawn 1; wr 0; nwait 0 | T1: rd 0; unrd 0",
        "cfg unwind=1 l=1 n=2 | T0: spawn 1; rd 0; nwait 0 | T1: rd 0; nwait 1",
        "cfg unwind=1 n=2 | T0: anew 0; aclone 0 1; spawn 1; nwait 0 | T1: nwait 1",
    ]
    return list(dict.fromkeys(out))


def run(ctx):
    ctx.prove(ctx.theorems())
    ctx.build_harness()
    programs = family(ctx)
    cap = 2000 if ctx.quick else 20000
    ctx.assumptions.append("what is dropped while a panic unwinds (the panicking thread's guards, its Arc handle and "
                           "Track) is performed by the harness, not modelled; the twin only predicts the class of the "
                           "first failing iteration")
    ctx.cov["rule"] = ("programs over every object kind with a user panic inserted at every position of every thread "
                       "(sampled by seed), run with unwinding that drops the panicking thread's guards and handles, plus "
                       "loom-raised failures (deadlock, race, branch limit at every limit below the need) with guards/handles, thread-"
                       "locals with loom-using destructors and lazy statics alive (plus native scenarios: a lazy static / thread-"
                       "local holding a loom Arc); the run must end "
                       "with a panic iff some reference execution fails, with a class the reference has; the process must "
                       "survive; every later program in the same process must still match the twin; non-trivial = the "
                       "failure is not in the first iteration or the program has ≥ 2 iterations")
    # at the branch limit: straight-line programs that need more branch entries than every limit tried (the entry that
    # exceeds the limit is a thread choice, a load or a spurious decision depending on the limit): the panic must come
    limit_programs = []
    for body, need in (("st 0 2 rlx; ld 0 rlx; ld 0 rlx; ld 0 rlx", 8), ("ld 0 rlx; ld 0 rlx; ld 0 rlx", 7),
                       ("fadd 0 1 rlx; ld 0 rlx; st 0 1 rlx; ld 0 rlx", 7)):
        for lim in range(1, need):
            limit_programs.append(f"cfg unwind=1 maxbr={lim} x=1 | T0: {body}")
    limit_programs += [f"cfg unwind=1 maxbr={lim} x=1 n=1 | T0: spawn 1; st 0 1 rlx; nnotify 0; join 1 | T1: nwait 0; ld 0 rlx; ld 0 rlx"
                       for lim in range(2, 8)]
    programs = list(dict.fromkeys(programs + limit_programs))
    impl, twin, dis = ctx.correspond(programs, cap, view="safety")
    differing = {d["program"] for d in dis}
    sc = lvlib.run_sc(programs, 60000 if ctx.quick else 400000)
    failures = []
    nontrivial = 0
    dist = {}
    for p in programs:
        its, done = lvlib.iterations(impl.get(p, []))
        ctx.cov["evaluations"] += len(its)
        ctx.cov["traces_validated_against_impl"] += len(its)
        outs, capped, _ = sc.get(p, (set(), True, 0))
        k = done[1] if done else "none"
        dist[k] = dist.get(k, 0) + 1
        if len(its) > 1:
            nontrivial += 1
        if not done:
            failures.append((p, "abort", "no result"))
            continue
        if done[0] == "?":
            failures.append((p, "abort", done[1]))
            continue
        if capped or done[1] == "capped":
            ctx.cov["skipped_for_size"] += 1
            continue
        verdicts = set(o.split(" ")[0] for o in outs)
        mine = lvlib.verdict_class(done[1])
        if done[1] == "ok":
            # (whether an execution that WOULD fail is explored at all is C01 / C05 / C10's question, not this
            # property's: C06 is about what happens once an explored iteration fails)
            pass
        elif mine in ("branchLimit", "threadLimit"):
            pass        # limits are judged by C19
        elif mine not in verdicts:
            if not (mine.startswith("causality") and any(v.startswith("causality") for v in verdicts)):
                failures.append((p, "forbidden", f"{mine} (the reference has {sorted(verdicts)})"))
        if p in limit_programs and done[1] != "branchLimit":
            failures.append((p, "forbidden", f"{done[1]}: the program needs more branches than max_branches allows in every "
                             f"execution, the branch-limit panic must be raised (a model that spins would hang instead)"))
        if done[1] != "ok" and len(its) > 1 and len(ctx.cov["samples"]) < 4:
            ctx.sample({"program": p, "fails_in_iteration": len(its), "with": done[1]})
    # scenarios the DSL cannot express (harness `native`): a lazy static / a thread-local HOLDING a loom Arc while the
    # iteration fails; one process per scenario; the failure must unwind to the caller and a later model must run
    import subprocess
    scen = subprocess.run([lvlib.HARNESS_BIN, "native", "list"], stdout=subprocess.PIPE, text=True).stdout.split()
    for sc in scen:
        r = subprocess.run([lvlib.HARNESS_BIN, "native", sc], stdout=subprocess.PIPE, stderr=subprocess.DEVNULL, text=True)
        ctx.cov["evaluations"] += 1
        ctx.cov["traces_validated_against_impl"] += 1
        want = "ok" if sc.endswith("_ok") else "panic:boom"
        lines = r.stdout.split("\n")
        if r.returncode != 0:
            failures.append((f"native:{sc}", "abort", f"abort(rc={r.returncode}): the process dies instead of reporting the failure "
                             f"(harness/src/native.rs, scenario {sc})"))
        elif f"NATIVE {sc} {want}" not in lines or f"NATIVE-AFTER {sc} ok" not in lines:
            failures.append((f"native:{sc}", "forbidden", f"expected `{want}` and a clean model afterwards, got {lines[:2]}"))
    ctx.cov["native_scenarios"] = len(scen)
    unlisted = ctx.attribute(failures, differing)
    if dis and not unlisted:
        for d in dis[:3]:
            ctx.violation("correspondence", {"disagreement": d, "rests_on_it": ctx.theorems()}, found_input=False,
                          program=d["program"])
    ctx.witness_check()
    ctx.cov["programs"] = len(programs)
    ctx.cov["distinct_nontrivial"] = nontrivial
    ctx.cov["distribution"] = {"result": dist, "oracle_failures": len(failures), "disagreements": len(dis)}

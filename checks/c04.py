"""C04 — data races on unsynchronised memory are reported exactly."""
from gen import litmus, families


def run(ctx):
    ctx.prove(ctx.theorems())
    ctx.build_harness()
    atomic = litmus.race_family(ctx.seed, ctx.quick)
    from gen import corpus
    sync = list(dict.fromkeys(corpus.corpus('C04') + families.race_sync_family(ctx.seed, ctx.quick)))
    programs = atomic + sync
    ctx.assumptions.append("happens-before of the reference semantics: Spec/RC11.lean for atomics and fences, the "
                           "textbook vector clocks of Spec/SC.lean for locks, channels, notify, park/unpark, join")

    def failures(impl):
        f = ctx.rc11_check(atomic, impl, lower=True, upper=True, races=True)
        f += [x for x in ctx.sc_check(sync, impl, 60000 if ctx.quick else 400000)
              if x[2].startswith("causality") or x[1] == "abort"]
        return f

    ctx.std_flow(programs, 5000 if ctx.quick else 50000, "safety", failures,
                 "a cell handed from one thread to another through release/acquire atomics, fences, RMW chains (1-2 "
                 "hops; orderings present, weakened or absent) judged by RC11, and through mutex, rwlock, channel, "
                 "notify, park/unpark and join judged by the reference interleaving semantics; the run must end with "
                 "a causality panic iff some reference execution has two conflicting unordered accesses; "
                 "non-trivial = the program has a cell accessed by two threads",
                 nontrivial_fn=lambda p, its, done: "crd" in p or "cwr" in p)
    ctx.witness_check()

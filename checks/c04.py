"""C04 — data races on unsynchronised memory are reported exactly."""
import lvlib
from gen import litmus, families


def unsync_family():
    """the non-atomic view of atomics (`unsync_load`, `with_mut`) against atomic accesses of another thread.  The verdict
    follows from the shape alone: the parent's access is unordered with the child's iff it sits between spawn and join
    (in every execution), and the two conflict iff one of them writes (`unsync_load` only conflicts with writes,
    `with_mut` with every access).  [(program, a race must be reported)]"""
    out = []
    child = {"ld 0 rlx": False, "ld 0 acq": False, "st 0 1 rlx": True, "st 0 1 rel": True, "fadd 0 1 ar": True, "swap 0 2 sc": True}
    for c, writes in child.items():
        for u in ("uld 0", "wmut 0 5"):
            conflict = writes or u.startswith("wmut")
            out.append((f"cfg x=1 | T0: spawn 1; {u}; join 1 | T1: {c}", conflict))
            out.append((f"cfg x=2 | T0: spawn 1; st 1 1 rlx; {u}; join 1 | T1: {c}", conflict))
            out.append((f"cfg x=1 | T0: spawn 1; join 1; {u} | T1: {c}", False))
            out.append((f"cfg x=1 | T0: {u}; spawn 1; join 1 | T1: {c}", False))
            out.append((f"cfg x=1 | T0: spawn 1; {c}; join 1 | T1: {u}", conflict))
    return out


def run(ctx):
    ctx.prove(ctx.theorems())
    ctx.build_harness()
    atomic = litmus.race_family(ctx.seed, ctx.quick)
    from gen import corpus
    sync = list(dict.fromkeys(corpus.corpus('C04') + families.race_sync_family(ctx.seed, ctx.quick)))
    unsync = unsync_family()
    programs = atomic + sync + [p for p, _ in unsync]
    ctx.assumptions.append("happens-before of the reference semantics: Spec/RC11.lean for atomics and fences, the "
                           "textbook vector clocks of Spec/SC.lean for locks, channels, notify, park/unpark, join")

    def failures(impl):
        f = ctx.rc11_check(atomic, impl, lower=True, upper=True, races=True)
        f += [x for x in ctx.sc_check(sync, impl, 60000 if ctx.quick else 400000)
              if x[2].startswith("causality") or x[1] == "abort"]
        for p, race in unsync:
            its, done = lvlib.iterations(impl.get(p, []))
            if not done:
                continue
            racy = done[1].startswith("causality")
            if race and not racy:
                f.append((p, "missed_failure", "causality (the unsynchronised access and the other thread's conflicting "
                          "atomic access are unordered in every execution)"))
            elif racy and not race:
                f.append((p, "forbidden", "causality (the two accesses are ordered by spawn/join or do not conflict)"))
        return f

    ctx.std_flow(programs, 5000 if ctx.quick else 50000, "safety", failures,
                 "a cell handed from one thread to another through release/acquire atomics, fences, RMW chains (1-2 "
                 "hops; orderings present, weakened or absent) judged by RC11, and through mutex, rwlock, channel, "
                 "notify, park/unpark and join judged by the reference interleaving semantics; the run must end with "
                 "a causality panic iff some reference execution has two conflicting unordered accesses; unsync_load / "
                 "with_mut of an atomic against atomic accesses of the other thread, before / between / after spawn and join "
                 "(verdict fixed by the shape); "
                 "non-trivial = the program has a cell accessed by two threads",
                 nontrivial_fn=lambda p, its, done: "crd" in p or "cwr" in p)
    path_witnesses(ctx)
    ctx.witness_check()


# executions that the exploration itself does not reach first but that a stored path replays: (program, path file,
# what the reference says about the execution that path encodes)
PATH_WITNESSES = [
    # F26 (repaired): two notifiers on one Notify; T1 is preempted inside its own notify() while T0 notifies.  T0's
    # write and T1's read are unordered (a notification orders nothing for another notifier): a race on this path.
    ("cfg n=1 c=1 | T0: spawn 1; cwr 0 5; nnotify 0; join 1 | T1: nnotify 0; crd 0", "f26_two_notifiers.json", "causality:9"),
]


def path_witnesses(ctx):
    import os, shutil, subprocess
    ckdir = os.path.join(lvlib.BUILD, "ckpt-" + ctx.pid)
    shutil.rmtree(ckdir, ignore_errors=True)
    os.makedirs(ckdir)
    for prog, fname, expect in PATH_WITNESSES:
        shutil.copy(os.path.join(lvlib.VERIF, "gen", "paths", fname), os.path.join(ckdir, fname))
        q = prog.replace("cfg ", f"cfg ckpt={fname} ", 1)
        r = subprocess.run([lvlib.HARNESS_BIN, "run", "--max", "1", "--ckpt-dir", ckdir], input=q + "\n",
                           stdout=subprocess.PIPE, stderr=subprocess.DEVNULL, text=True)
        its, done = lvlib.iterations(lvlib._split_records(r.stdout).get(q, []))
        ctx.cov["traces_validated_against_impl"] += 1
        got = its[0]["term"] if its else "none"
        if got != expect:
            ctx.violation("oracle-missed_failure",
                          {"outcome": f"the execution encoded by gen/paths/{fname} must end with {expect} (the two accesses "
                                      f"are unordered in the reference); the implementation ends it with {got}",
                           "path_file": "gen/paths/" + fname}, found_input=True, program=prog)
    shutil.rmtree(ckdir, ignore_errors=True)
    ctx.cov["path_witnesses"] = len(PATH_WITNESSES)

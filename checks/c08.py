"""C08 — see checks/sc_props.py"""
from checks import sc_props
from gen import families


def run(ctx):
    sc_props.run_for(ctx, families.c08_family)

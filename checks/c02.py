"""C02 — every C11-allowed weak-memory outcome without load buffering is explored."""
from gen import litmus


def run(ctx):
    ctx.prove(ctx.theorems())
    ctx.build_harness()
    from gen import corpus
    programs = list(dict.fromkeys(corpus.corpus('C03') + litmus.family(ctx.seed, ctx.quick)))
    ctx.assumptions.append("Spec/RC11.lean (RC11 with the C++20 release sequence, `strong` instance) is trusted as "
                           "the meaning of 'C11-allowed'; its enumerator Oracle/RC11EnumV.lean is proved sound and complete "
                           "(Props/OracleRC11.lean, audited here); programs whose candidate space exceeds the cap are "
                           "skipped and counted")
    ctx.std_flow(programs, 4000 if ctx.quick else 30000, "explore",
                 lambda impl: ctx.rc11_check(programs, impl, lower=True, upper=False),
                 "classic litmus shapes (SB, MP, CoRR, CoWR, CoRW, 2+2W, RMW, INC, CAS, SB/MP with fences, release "
                 "sequences, WRC, RWC, IRIW, the F2/F3/F16 shapes) under ordering assignments from {rlx, acq|rel, sc} "
                 "(uniform ones always, the rest sampled by seed) with a final read of every location, plus seeded "
                 "random programs over loads/stores/RMWs/fences (fewer than 7 stores per location); every exploration "
                 "is compared with the explorer twin; the explored outcome set must contain every outcome of "
                 "RC11(strong); non-trivial = more than one iteration")
    ctx.witness_check()

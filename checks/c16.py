"""C16 — iterations are isolated from one another."""
import subprocess

import lvlib
from gen import families, progs


def family(ctx):
    r = progs.Rng(ctx.seed ^ 0xC16)
    n = 12 if ctx.quick else 200
    out = []
    for kind in ("atomic", "mutex", "condvar", "notify", "park", "channel", "arc", "rwlock"):
        out += families.exhaustive(kind, 2, 2, n, r.fork(kind))
    for _ in range(40 if ctx.quick else 600):
        out.append(progs.gen_mixed(r))
    from gen import corpus, litmus
    out += corpus.corpus("C16")
    out += [p for p in litmus.family(ctx.seed, True) if "fence sc" in p][: (20 if ctx.quick else 200)]
    # thread-locals and lazy statics (values created in one iteration must not be visible in the next)
    from gen import c17c20
    tl = c17c20.c17_family(ctx.seed, True)
    out += tl[:: max(1, len(tl) // (30 if ctx.quick else 300))]
    # leave state behind: leaks, deadlocks, races, panics, objects of every kind
    out += ["cfg | T0: anew 0", "cfg | T0: tnew 0", "cfg q=1 | T0: send 0 1", "cfg m=1 | T0: lock 0",
            "cfg m=1 | T0: spawn 1; lock 0; join 1 | T1: lock 0", "cfg c=1 | T0: spawn 1; cwr 0 1; join 1 | T1: cwr 0 2",
            "cfg x=1 | T0: spawn 1; st 0 1 rlx; panic | T1: ld 0 rlx", "cfg | T0: spawn 1; spawn 2; spawn 3; spawn 4 | T1: park | T2: park | T3: park | T4: park"]
    return list(dict.fromkeys(out))


def F_ok(failure):
    """failures of the lower bound that are the listed incompleteness of the pinned tree (F1, F2, F16) are
    not this property's business"""
    from checks import findings as F
    p, kind, o = failure
    yield any(F.SIGNATURES[c](p, kind, o) for c in ("dpor-atomic-single-slot", "fence-acquire-over-sync",
                                                     "seqcst-load-pruning"))


def run_cmd(args, programs):
    r = subprocess.run([lvlib.HARNESS_BIN] + args, input="\n".join(programs) + "\n", stdout=subprocess.PIPE,
                       stderr=subprocess.DEVNULL, text=True)
    return lvlib._split_records(r.stdout)


def run(ctx):
    ctx.prove(ctx.theorems())
    ctx.build_harness()
    programs = family(ctx)
    cap = 1500 if ctx.quick else 20000
    ctx.cov["rule"] = ("programs over every object kind, including ones that end with leaks, deadlocks, races and panics; "
                       "each program's full record (every iteration: start path, events with clocks, end path, thread "
                       "table, object table) is compared between: alone in a fresh process; after all the others in one "
                       "process in two different orders (so also right after a failing model); on 8 OS threads running "
                       "different models concurrently; and the stateless Lean twin; a pair is non-trivial when the "
                       "earlier program leaves objects or threads behind (every program does) and the later one has ≥ 2 "
                       "iterations")
    ctx.assumptions.append("unmodelled runtime state exercised only by these runs: scoped_tls, the global execution-id "
                           "counter, generator stacks, tracing dispatch")
    impl, twin, dis = ctx.correspond(programs, cap, view="safety")
    differing = {d["program"] for d in dis}
    failures = []
    fresh = lvlib.run_many([lvlib.HARNESS_BIN, "run", "--max", str(cap)], programs, chunk=1)
    fwd = run_cmd(["run", "--max", str(cap)], programs)
    rev = run_cmd(["run", "--max", str(cap)], list(reversed(programs)))
    par = run_cmd(["threads", "8", "--max", str(cap)], programs)
    nontrivial = 0
    for p in programs:
        a = fresh.get(p)
        its, done = lvlib.iterations(a or [])
        ctx.cov["evaluations"] += 4 * len(its)
        ctx.cov["traces_validated_against_impl"] += 4 * len(its)
        if len(its) > 1:
            nontrivial += 1
        for name, other in (("after the other programs in one process", fwd), ("after the other programs, reversed order", rev),
                            ("on 8 OS threads concurrently", par)):
            b = other.get(p)
            if a != b:
                d = lvlib.first_diff(a or [], b or [])
                failures.append((p, "forbidden", f"records differ when run {name}: at record {d[0]} fresh={d[1][:120]!r} "
                                 f"other={d[2][:120]!r}"))
                break
        # thread ids restart at the main thread, clocks at zero: first event of every iteration
        for it in its[:50]:
            if it["ev"] and it["ev"][0][0] != "0":
                failures.append((p, "forbidden", f"iteration {it['idx']} does not start on the main thread"))
                break
    # an iteration is a function of its start path alone: iteration k of a run, executed again as the FIRST iteration
    # of a fresh process that loads the start path of k as its checkpoint, must produce the same record (events with
    # clocks, end path, thread table, object table).  Anything carried over from iteration k-1 shows up here.
    import hashlib, os, shutil
    ckdir = os.path.join(lvlib.BUILD, "ckpt-" + ctx.pid)
    shutil.rmtree(ckdir, ignore_errors=True)
    os.makedirs(ckdir)
    sample = [p for p in programs if len(lvlib.iterations(fresh.get(p) or [])[0]) > 1 and "ckpt=" not in p]
    from gen import corpus as _corpus
    first = [p for p in _corpus.corpus("C16") if p in sample]
    sample = (first + [p for p in sample if p not in first])[: (60 if ctx.quick else 600)]
    with_starts = run_cmd(["run", "--starts", "--max", str(cap)], sample)
    replayed = 0
    import json as _json
    for p in sample:
        its, done = lvlib.iterations(with_starts.get(p) or [])
        # the part of the explorer's state that is not the list of recorded decisions must be the same at the start of
        # every iteration: position 0, not skipping, exploring as configured (a skip_branch or stop_exploring of the
        # previous iteration must not reach into this one)
        for it in its:
            if "start" not in it:
                continue
            st = _json.loads(it["start"])
            if st.get("pos") != 0 or st.get("skipping") or st.get("exploring") != st.get("exploring_on_start"):
                failures.append((p, "forbidden", f"iteration {it['idx']} does not start from the initial explorer state: pos="
                                 f"{st.get('pos')} skipping={st.get('skipping')} exploring={st.get('exploring')} "
                                 f"exploring_on_start={st.get('exploring_on_start')}"))
                break
        ks = sorted(set([1, 2, len(its) // 2, len(its) - 1]) & set(range(1, len(its))))
        if p in first and len(its) <= 400:
            ks = list(range(1, len(its)))       # the hand-written programs: every iteration
        for k in ks:
            it = its[k]
            if "start" not in it:
                continue
            name = hashlib.sha1(f"{p}#{k}".encode()).hexdigest()[:16] + ".json"
            open(os.path.join(ckdir, name), "w").write(it["start"])
            q = p.replace("cfg ", f"cfg ckpt={name} ", 1)
            r = subprocess.run([lvlib.HARNESS_BIN, "run", "--starts", "--max", "1", "--ckpt-dir", ckdir], input=q + "\n",
                               stdout=subprocess.PIPE, stderr=subprocess.DEVNULL, text=True)
            its2, _ = lvlib.iterations(lvlib._split_records(r.stdout).get(q, []))
            replayed += 1
            ctx.cov["traces_validated_against_impl"] += 1
            if not its2 or its2[0]["lines"] != it["lines"]:
                d = lvlib.first_diff(it["lines"], its2[0]["lines"] if its2 else [])
                failures.append((p, "forbidden", f"iteration {k + 1} is not a function of its start path: executed first in a "
                                 f"fresh process from that path it differs at record {d[0]}: in the run={d[1][:100]!r} "
                                 f"fresh={d[2][:100]!r}"))
                break
            os.remove(os.path.join(ckdir, name))
    shutil.rmtree(ckdir, ignore_errors=True)
    ctx.cov["iterations_replayed_in_fresh_process"] = replayed
    # weak-memory outcomes of the fence programs must not depend on the iteration they are explored in:
    # every RC11(strong) outcome has to be explored (a clock leaking from iteration to iteration removes some)
    from gen import corpus
    fence_progs = [p for p in programs if "fence sc" in p and "crd" not in p and "cwr" not in p]
    failures += [f for f in ctx.rc11_check(fence_progs, fresh, lower=True, upper=False)
                 if not any(F_ok(f)) ]
    unlisted = ctx.attribute(failures, differing)
    if dis and not unlisted:
        for d in dis[:3]:
            ctx.violation("correspondence", {"disagreement": d, "rests_on_it": ctx.theorems()}, found_input=False,
                          program=d["program"])
    ctx.sample({"program": programs[0], "settings": ["fresh process", "after others", "reversed order", "8 OS threads", "twin"]})
    ctx.cov["programs"] = len(programs)
    ctx.cov["distinct_nontrivial"] = nontrivial
    ctx.cov["distribution"] = {"settings": 4, "oracle_failures": len(failures), "disagreements": len(dis)}

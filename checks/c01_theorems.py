THEOREMS = [
    "LoomVerif.C14.step_spec", "LoomVerif.C14.advance_sched_leftmost", "LoomVerif.C14.backtrack_frame",
    "LoomVerif.C14.no_repeat", "LoomVerif.C14.terminates",
]
STATUS = {}

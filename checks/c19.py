"""C19 — exploration controls and limits behave as documented."""
import json
import re

import lvlib
from gen import families, progs


def threads(p):
    head, *ths = p.split(" | ")
    return head, [t.split(": ", 1)[1].split("; ") if ": " in t else [] for t in ths]


def rebuild(head, ths):
    return head + " | " + " | ".join((f"T{i}: " + "; ".join(ops)).rstrip() for i, ops in enumerate(ths))


def fix_ifeq(ops):
    return ops


def regions(p, r, limit):
    """insert stop…explore around every contiguous range of a thread's own operations, and `skip` at every position.
    An `ifeq` refers to an earlier operation by distance and skips a number of operations: nothing is inserted
    between the operation it refers to and the end of its skip range (that would change the program)."""
    head, ths = threads(p)
    out = []
    for t, ops in enumerate(ths):
        n = len(ops)
        spans = []
        for k, o in enumerate(ops):
            a = o.split()
            if a and a[0] == "ifeq":
                spans.append((k - int(a[1]), k + int(a[3])))

        def free(pos):          # may something be inserted before ops[pos]?
            return all(pos <= lo or pos > hi for lo, hi in spans)

        for i in range(n + 1):
            for j in range(i + 1, n + 1):
                if free(i) and free(j) and all(j <= lo or i > hi for lo, hi in spans):
                    new = ops[:i] + ["stop"] + ops[i:j] + ["explore"] + ops[j:]
                    out.append(rebuild(head, ths[:t] + [new] + ths[t + 1:]))
            if free(i):
                new = ops[:i] + ["skip"] + ops[i:]
                out.append(rebuild(head, ths[:t] + [new] + ths[t + 1:]))
    if len(out) > limit:
        idx = sorted(range(len(out)), key=lambda k: (r.next(), k))[:limit]
        out = [out[k] for k in sorted(idx)]
    return out


def region_oracle(p, its):
    """no alternative is explored for a decision taken while exploration is off: the entry that `Path::step`
    advanced to start an iteration (the last entry of the iteration's start path) must be one that was created
    while exploring.  (Read from the path dumps: every entry carries the `exploring` flag it was created with.)"""
    for it in its[1:]:
        st = it.get("start")
        if not st:
            continue
        path = json.loads(st)
        # the controls act on the rest of ONE execution: the next one starts exploring again (or not, as configured)
        if path.get("skipping") or path.get("exploring") != path.get("exploring_on_start"):
            return (f"iteration {it['idx']} starts with skipping={path.get('skipping')} exploring={path.get('exploring')} "
                    f"(configured: exploring={path.get('exploring_on_start')}): a control call of the previous execution "
                    f"is still in force")
        entries = path["branches"]["entries"]
        if not entries:
            continue
        (kind, body), = entries[-1].items()
        if body.get("exploring") is False:
            return (f"iteration {it['idx']} starts by advancing a {kind} entry that was created while exploration was "
                    f"off (position {len(entries) - 1} of its start path)")
    return None


def base_family(ctx):
    r = progs.Rng(ctx.seed ^ 0xC19)
    n = 14 if ctx.quick else 200
    out = []
    out += families.exhaustive("atomic", 2, 2, n, r.fork("a"))
    out += families.exhaustive("mutex", 2, 2, n, r.fork("m"))
    out += families.exhaustive("channel", 2, 2, n // 2, r.fork("q"))
    out += families.exhaustive("notify", 2, 1, n // 2, r.fork("n"))
    return [p for p in dict.fromkeys(out) if "ifeq" not in p or True]


def set_cfg(p, **kv):
    for k, v in kv.items():
        p = p.replace("cfg ", f"cfg {k}={v} ", 1)
    return p


def run(ctx):
    ctx.prove(ctx.theorems())
    ctx.build_harness()
    r = progs.Rng(ctx.seed ^ 0x19C)
    base = base_family(ctx)
    cap = 3000 if ctx.quick else 30000
    ctx.cov["rule"] = ("atomic / mutex / channel / notify programs with a stop_exploring…explore region around every range "
                       "of a thread's operations and skip_branch at every position (sampled by seed); limits: max_branches "
                       "and max_threads at need-1 / need / need+1, max_permutations around multiples of the checkpoint "
                       "interval; every run is compared with the explorer twin (paths incl. the exploring flags); the "
                       "result set with controls must be a subset of the unrestricted one; non-trivial = the "
                       "unrestricted run has more than one iteration")
    # ---- controls
    ctl = {}
    for p in base:
        ctl[p] = regions(p, r, 6 if ctx.quick else 40)
    extra = [
        # an earlier execution reaches skip_branch conditionally, a later one relies on stop/explore
        "cfg x=2 | T0: spawn 1; ld 0 rlx; ifeq 1 v:0 1; skip; stop; ld 1 rlx; explore; join 1 | T1: st 0 1 rlx; st 1 1 rlx",
        "cfg x=2 | T0: spawn 1; ld 0 rlx; ifeq 1 v:1 1; skip; stop; ld 1 rlx; explore; ld 0 rlx; join 1 | T1: st 0 1 rlx; st 1 1 rlx",
        "cfg explicit=1 x=2 | T0: spawn 1; ld 0 rlx; explore; ld 1 rlx; stop; ld 0 rlx; join 1 | T1: st 0 1 rlx; st 1 1 rlx",
        "cfg x=1 m=1 c=1 | T0: spawn 1; ld 0 rlx; ifeq 1 v:0 1; skip; stop; lock 0; crd 0; unlock 0; explore; join 1 | T1: st 0 1 rlx; lock 0; cwr 0 1; unlock 0",
    ]
    ctl["#extra"] = []
    programs = list(dict.fromkeys(base + [q for qs in ctl.values() for q in qs] + extra))
    impl, twin, dis = ctx.correspond(programs, cap, view="explore")
    differing = {d["program"] for d in dis}
    failures = []
    nontrivial = 0
    restricted = 0
    with_starts = lvlib.run_impl([q for q in programs if q not in base], starts=True, max_iters=cap)
    for q in extra:
        its2, done2 = lvlib.iterations(with_starts.get(q, []))
        ctx.cov["evaluations"] += len(its2)
        err = region_oracle(q, its2)
        if err:
            failures.append((q, "forbidden", err))
    for p in base:
        its, done = lvlib.iterations(impl.get(p, []))
        ctx.cov["evaluations"] += len(its)
        if not done or done[1] != "ok":
            continue
        if len(its) > 1:
            nontrivial += 1
        full = set(lvlib.outcome_str(it) for it in its)
        strip = lambda o: re.sub(r" \d+:\d+=-", "", o)      # control ops shift pcs: compare value returns only
        fullv = set(" ".join(sorted(re.findall(r"=(v:[^ ]+|ok:[^ ]+|err:[^ ]+|empty)", o))) for o in full)
        for q in ctl[p]:
            its2, done2 = lvlib.iterations(impl.get(q, []))
            ctx.cov["evaluations"] += len(its2)
            ctx.cov["traces_validated_against_impl"] += len(its2)
            if not done2 or done2[1] != "ok":
                if done2 and done2[1] not in ("capped",):
                    failures.append((q, "forbidden", f"run with controls ends with {done2[1]}, unrestricted run passes"))
                continue
            if len(its2) < len(its):
                restricted += 1
            vals = set(" ".join(sorted(re.findall(r"=(v:[^ ]+|ok:[^ ]+|err:[^ ]+|empty)", lvlib.outcome_str(it))))
                       for it in its2)
            extra = vals - fullv
            if extra:
                # the unrestricted exploration lacks this result
                failures.append((q, "missing", "result not in the unrestricted result set: " + sorted(extra)[0]))
            # (the NUMBER of iterations with controls is not judged: a `skip_branch` changes which later entries are
            # exploring and, through DPOR's marks, can lengthen as well as shorten the exploration)
            err = region_oracle(q, lvlib.iterations(with_starts.get(q, []))[0])
            if err:
                failures.append((q, "forbidden", err))
            if len(ctx.cov["samples"]) < 3 and len(its2) < len(its):
                ctx.sample({"program": q, "iterations": len(its2), "unrestricted_iterations": len(its)})
    # ---- limits
    lim_programs = []
    expect = {}
    for p in base[: (30 if ctx.quick else 300)]:
        its, done = lvlib.iterations(impl.get(p, []))
        if not done or done[1] != "ok" or not its:
            continue
        need_br = max(len(it.get("view", [])) for it in its)
        nth = len(p.split(" | ")) - 1
        total = len(its)
        # (below the need at several distances: the push that exceeds the limit is then a thread-choice entry in some
        # programs and a load / spurious entry in others)
        for d in (-3, -2):
            if need_br + d >= 1:
                q = set_cfg(p, maxbr=need_br + d)
                lim_programs.append(q)
                expect[q] = ("branchLimit", None)
        for d in (-1, 0, 1):
            q = set_cfg(p, maxbr=need_br + d)
            lim_programs.append(q)
            expect[q] = ("branchLimit" if d < 0 else "ok", None)
            if nth + d >= 1:
                q = set_cfg(p, maxth=nth + d)
                lim_programs.append(q)
                expect[q] = ("threadLimit" if d < 0 else "ok", None)
        for c, m in ((1, 1), (1, 2), (2, 3), (3, 3), (3, 4), (2, 1), (5, 7)):
            q = set_cfg(p, intv=c, perm=m)
            lim_programs.append(q)
            boundary = c * ((m + c - 1) // c)
            expect[q] = ("ok", min(total, boundary - 1))
        # max_duration: an expired budget (0 ms) ends the run at the first checkpoint boundary, alone and together
        # with a permutation limit that is not reached; a budget far beyond the run never cuts
        for c in (1, 2, 3, 5):
            for extra in ({}, {"perm": 1000000}):
                q = set_cfg(p, intv=c, dur=0, **extra)
                lim_programs.append(q)
                expect[q] = ("ok", min(total, c - 1))
        for extra in ({}, {"perm": 1000000}, {"perm": 2}):
            q = set_cfg(p, intv=1, dur=3600000, **extra)
            lim_programs.append(q)
            expect[q] = ("ok", min(total, 1) if extra.get("perm") == 2 else total)
    # every limit from 1 to need+1 on straight-line programs with loads, RMWs and a spurious wait (the entry that
    # exceeds the limit is of every kind in turn)
    for body, cfg in (("st 0 2 rlx; ld 0 rlx; ld 0 rlx; ld 0 rlx", "x=1"), ("ld 0 rlx; ld 0 rlx; ld 0 rlx", "x=1"),
                      ("fadd 0 1 rlx; ld 0 rlx; st 0 1 rlx; ld 0 rlx", "x=1"),
                      ("spawn 1; st 0 1 rlx; nnotify 0; join 1 | T1: nwait 0; ld 0 rlx; ld 0 rlx", "x=1 n=1")):
        p0 = f"cfg {cfg} | T0: {body}"
        r0 = lvlib.run_impl([p0], max_iters=cap)
        its0, done0 = lvlib.iterations(r0.get(p0, []))
        if not done0 or done0[1] != "ok":
            continue
        lens = [len(it.get("view", [])) for it in its0]
        for lim in range(1, max(lens) + 2):
            q = set_cfg(p0, maxbr=lim)
            lim_programs.append(q)
            # the run fails at the first iteration that needs more entries than the limit
            expect[q] = ("branchLimit" if any(n > lim for n in lens) else "ok", None)
    impl2, twin2, dis2 = ctx.correspond(lim_programs, cap, view="explore")
    differing |= {d["program"] for d in dis2}
    for q in lim_programs:
        its, done = lvlib.iterations(impl2.get(q, []))
        ctx.cov["evaluations"] += len(its)
        ctx.cov["traces_validated_against_impl"] += len(its)
        cls, n = expect[q]
        if not done:
            failures.append((q, "abort", "no result"))
        elif done[1] != cls:
            failures.append((q, "forbidden", f"expected {cls}, run ended with {done[1]}"))
        elif n is not None and len(its) != n:
            failures.append((q, "forbidden", f"expected {n} iterations before the permutation limit, saw {len(its)}"))
    unlisted = ctx.attribute(failures, differing)
    # listed findings: a result found with controls that the unrestricted run lacks
    for k in ctx.known:
        if k.get("kind") == "controls-not-subset":
            w, b = k["witness"], k["base"]
            rb = lvlib.run_impl([w, b], max_iters=cap)
            val = lambda its: set(" ".join(sorted(re.findall(r"=(v:[^ ]+|ok:[^ ]+|err:[^ ]+|empty)", lvlib.outcome_str(it)))) for it in its)
            sw, sb = val(lvlib.iterations(rb[w])[0]), val(lvlib.iterations(rb[b])[0])
            if sw - sb:
                ctx.known_finding(k["id"], "(a run with exploration controls finds a result the unrestricted run does not) " + k["what"])
    if dis and not unlisted:
        # the correspondence of the exploration broke and no oracle above has a failing input: search for an execution
        # that fully exploring the decisions outside the regions must visit (the model's exploration does, its path is
        # known) and the implementation's exploration does not; the implementation itself confirms the execution by
        # running that path from a checkpoint
        hits = ctx.model_path_search([d["program"] for d in dis if d["program"] not in base or True], cap)
        for q, o, path in hits:
            unlisted += 1
            ctx.violation("oracle-missing",
                          {"outcome": o, "decision_path": json.loads(path),
                           "note": "the implementation, handed this decision path as a checkpoint, executes it to exactly "
                                   "this result, so it is an execution of the real code; its own exploration never "
                                   "produces the result, the model's exploration (entries created inside a region frozen, "
                                   "all others advanced: Controls.nonexploring_frozen, outside_unaffected) does",
                           "implementation_equals_twin": False}, found_input=True, program=q)
    if (dis or dis2) and not unlisted:
        for d in (dis + dis2)[:3]:
            ctx.violation("correspondence", {"disagreement": d, "rests_on_it": ctx.theorems()}, found_input=False,
                          program=d["program"])
    ctx.cov["programs"] = len(programs) + len(lim_programs)
    ctx.cov["distinct_nontrivial"] = nontrivial + restricted
    ctx.cov["distribution"] = {"base_programs": len(base), "with_controls": len(programs) - len(base),
                               "controls_that_cut_exploration": restricted, "limit_runs": len(lim_programs),
                               "oracle_failures": len(failures), "disagreements": len(dis) + len(dis2)}

"""C05, C07, C08, C09, C10, C11 share one shape: a family over the property's object kinds, the
decision replay on the twin, and the reference interleaving semantics as the oracle."""
from gen import families, corpus

RULES = {
    "C05": ("lock-order inversions, lost notifications, recv without send, park without unpark, each with its "
            "non-deadlocking variants, and by-standers that unpark/notify threads blocked elsewhere; the run must end "
            "with `deadlock` iff some reference execution deadlocks"),
    "C07": ("up to 2 mutexes and an rwlock with nested/overlapping sections and try-variants in 2-3 threads, cells "
            "inside the sections (a missing hand-over edge or a broken exclusion becomes a causality panic or a value "
            "the reference does not have)"),
    "C08": ("condvar / Notify / park / join programs in 2-3 threads: notifications early, late, twice, to a thread "
            "blocked elsewhere, notify_one with two waiters, notify_all"),
    "C09": ("1-2 senders and a receiver, 0-3 sends, recv/try_recv mixes, receiver dropped early or late"),
    "C10": ("programs that create, clone, move and drop Arcs, Track values and raw allocations, and channels with the "
            "receiver dropped or kept; a leak panic iff the reference end state leaks"),
    "C11": ("2-3 threads cloning, inspecting, unwrapping, raw round-tripping and dropping one Arc"),
}


def relevant(pid, failure):
    """restrict the oracle comparison to what the property is about"""
    _p, kind, outcome = failure
    if pid == "C05":
        return outcome.startswith("deadlock") or (kind == "forbidden" and not outcome.startswith("ok"))
    if pid == "C10":
        return outcome.startswith("leak") or kind == "abort"
    return True


def run_for(ctx, fam):
    ctx.prove(ctx.theorems())
    ctx.build_harness()
    programs = list(dict.fromkeys(corpus.corpus(ctx.pid) + fam(ctx.seed, ctx.quick)))
    ctx.assumptions.append("Spec/SC.lean (interleaving semantics of the DSL) is trusted as the meaning of the "
                           "primitives; Oracle/SCEnum.lean enumerates it (memoised; capped programs are skipped and "
                           "counted)")
    ctx.std_flow(programs, 3000 if ctx.quick else 30000, "safety",
                 lambda impl: [f for f in ctx.sc_check(programs, impl, 60000 if ctx.quick else 400000)
                               if relevant(ctx.pid, f)]
                 + (ctx.spurious_oracle(programs, impl) if ctx.pid == "C08" else []),
                 RULES[ctx.pid] + "; exhaustive small shapes sampled by seed plus seeded random programs; every "
                 "implementation iteration is replayed on the twin when the explorations differ; explored outcomes "
                 "must equal the reference outcomes (soundness for every iteration, completeness when the run passes); "
                 "non-trivial = more than one iteration")
    ctx.witness_check()

"""C18 — spin loops that yield make progress and lose no exit outcome."""
import lvlib
from gen import progs

LD = ["rlx", "acq", "sc"]
ST = ["rlx", "rel", "sc"]


def family(ctx):
    r = progs.Rng(ctx.seed ^ 0xC18)
    out = []
    # one flag written once by another thread; the loop placed first / middle / last in the waiter
    for so in ST:
        for lo in LD:
            for place in range(3):
                pre = ["st 1 7 rlx"] if place >= 1 else []
                post = ["ld 1 rlx"] if place <= 1 else []
                waiter = pre + [f"await 0 1 {lo}"] + post
                for wpre in ([], ["st 1 5 rlx"], ["ld 1 rlx"]):
                    writer = wpre + [f"st 0 1 {so}"]
                    out.append(progs.render({"x": 2}, progs.frame([waiter], writer, [])))
                    out.append(progs.render({"x": 2}, progs.frame([writer], waiter, [])))
    # the flag is set through an RMW / a release sequence
    for lo in LD:
        out.append(progs.render({"x": 2}, progs.frame([[f"await 0 1 {lo}", "ld 1 rlx"]], ["st 1 1 rlx", "fadd 0 1 rel"], [])))
        out.append(progs.render({"x": 2}, progs.frame([[f"await 0 2 {lo}"]], ["st 0 1 rlx", "st 0 2 rel"], [])))
    # two waiters on different flags, never spinning at the same time (the second flag is set by the first waiter)
    for lo in LD:
        out.append(progs.render({"x": 2}, progs.frame([[f"await 0 1 {lo}", "st 1 1 rel"], [f"await 1 1 {lo}"]],
                                                      ["st 0 1 rel"], [])))
    # the writer goes on after publishing the flag, and both take a ticket: the waiter may leave its loop before or
    # after the writer's next step (waiter spawned after the writer / as main / next to a third thread)
    for lo in LD:
        out.append(progs.render({"x": 2}, progs.frame([[f"await 0 1 {lo}", "fadd 1 1 rlx"]], ["st 0 1 rel", "fadd 1 1 rlx"], [])))
        out.append(progs.render({"x": 2}, progs.frame([["st 0 1 rel", "fadd 1 1 rlx"]], [f"await 0 1 {lo}", "fadd 1 1 rlx"], [])))
        out.append(progs.render({"x": 2}, progs.frame([["st 0 1 rel", "fadd 1 1 rlx"], [f"await 0 1 {lo}", "fadd 1 1 rlx"]], [], [])))
        out.append(progs.render({"x": 2}, progs.frame([[f"await 0 1 {lo}", "fadd 1 1 rlx"], ["st 0 1 rel", "fadd 1 1 rlx"]], [], [])))
        out.append(progs.render({"x": 2}, progs.frame([["park", "st 0 1 rel", "fadd 1 1 rlx"],
                                                       ["unpark 1", f"await 0 1 {lo}", "fadd 1 1 rlx"]], [], [])))
    # the loop written yield-first (`loop { yield_now(); if x.load(ord) == v { break } }`): the waiter is in the yielded
    # state before the flag is written, whatever the schedule; writer before / after the waiter in spawn order, and main
    for lo in LD:
        for w_first in (True, False):
            wr, wa = ["st 0 1 rel", "fadd 1 1 rlx"], ["yield", f"await 0 1 {lo}", "fadd 1 1 rlx"]
            out.append(progs.render({"x": 2}, progs.frame([wr, wa] if w_first else [wa, wr], [], [])))
        out.append(progs.render({"x": 2}, progs.frame([["yield", f"await 0 1 {lo}", "fadd 1 1 rlx"]], ["st 0 1 rel", "fadd 1 1 rlx"], [])))
        out.append(progs.render({"x": 2}, progs.frame([["st 0 1 rel", "fadd 1 1 rlx"]], ["yield", f"await 0 1 {lo}", "fadd 1 1 rlx"], [])))
        out.append(progs.render({"x": 3}, progs.frame([["st 0 1 rel", "fadd 1 1 rlx"], ["yield", f"await 0 1 {lo}", "fadd 1 1 rlx", "st 2 1 rel"],
                                                       [f"await 2 1 {lo}", "fadd 1 1 rlx"]], [], [])))
    # waiter that also takes a lock
    out.append(progs.render({"x": 1, "m": 1, "c": 1}, progs.frame([["await 0 1 acq", "lock 0", "crd 0", "unlock 0"]],
                                                                   ["lock 0", "cwr 0 3", "unlock 0", "st 0 1 rel"], [])))
    extra = 30 if ctx.quick else 600
    for _ in range(extra):
        lo, so = r.choice(LD), r.choice(ST)
        nx = 2
        vs = progs.ValueSource()
        w = [progs.rand_atomic_op(r, nx, vs, allow_rmw=False, allow_fence=False) for _ in range(r.below(3))]
        w = [o for o in w if not o.startswith("st 0") ]
        a = [progs.rand_atomic_op(r, nx, vs, allow_rmw=False, allow_fence=False) for _ in range(r.below(2))]
        a = [o for o in a if not o.startswith("st 0")]
        out.append(progs.render({"x": nx}, progs.frame([a + [f"await 0 9 {lo}"] + ["ld 1 rlx"]], w + [f"st 0 9 {so}"], [])))
    return list(dict.fromkeys(out))


def unsat_family(ctx):
    out = []
    for lo in LD:
        for br in (20, 50):
            out.append(progs.render({"maxbr": br, "x": 1}, progs.frame([[f"await 0 1 {lo}"]], ["st 0 2 rlx"], [], join=True)))
            out.append(progs.render({"maxbr": br, "x": 1}, [[f"await 0 1 {lo}"]]))
    return out


def unrolled_family():
    """one round of a yield-first loop written out (`yield_now(); if flag.load(o) == 1 { … }`), followed by a read of
    ANOTHER location: judged against RC11, because the values the thread may read after the loop include stale ones
    (a store is pruned from a load's candidates only if THIS thread saw it before its yield)"""
    out = []
    for so in ST:
        for lo in LD:
            out.append(f"cfg x=2 | T0: spawn 1; st 1 1 rlx; st 0 1 {so}; join 1 | T1: yield; ld 0 {lo}; ifeq 1 v:1 1; ld 1 rlx")
            out.append(f"cfg x=2 | T0: spawn 1; yield; ld 0 {lo}; ifeq 1 v:1 1; ld 1 rlx; join 1 | T1: st 1 1 rlx; st 0 1 {so}")
            out.append(f"cfg x=2 | T0: spawn 1; spawn 2; join 1; join 2 | T1: st 1 1 rlx; st 1 2 rlx; st 0 1 {so} | T2: ld 1 rlx; yield; ld 0 {lo}; ifeq 1 v:1 1; ld 1 rlx")
    return out


def run(ctx):
    ctx.prove(ctx.theorems())
    ctx.build_harness()
    sat = family(ctx)
    unsat = unsat_family(ctx)
    unrolled = unrolled_family()
    programs = sat + unsat + unrolled
    ctx.assumptions.append("reference for the exit outcomes: Spec/SC.lean with `await` as a blocking read (interleaving "
                           "outcomes only; weak-memory outcomes of the other loads are not required here)")

    def failures(impl):
        f = []
        sc = lvlib.run_sc(sat, 100000)
        for p in sat:
            its, done = lvlib.iterations(impl.get(p, []))
            outs, capped, _ = sc.get(p, (set(), True, 0))
            if not done or done[1] == "capped" or capped:
                ctx.cov["skipped_for_size"] += 1
                continue
            if done[1] != "ok":
                f.append((p, "forbidden", f"run ends with {done[1]} although the awaited value is always written"))
                continue
            explored = set(lvlib.outcome_str(it) for it in its)
            miss = sorted(o for o in outs if o.startswith("ok") and o not in explored)
            if miss:
                f.append((p, "missing", miss[0]))
        f += ctx.rc11_check(unrolled, impl, lower=True, upper=False)
        for p in unsat:
            its, done = lvlib.iterations(impl.get(p, []))
            if not done or done[1] != "branchLimit":
                f.append((p, "forbidden", f"loop whose condition never holds: expected the branch-limit panic, got {done}"))
        return f

    ctx.std_flow(programs, 5000 if ctx.quick else 50000, "explore", failures,
                 "a waiter spinning with yield (`await x v ord` = loop { if x.load(ord)==v {break}; yield_now() }) on a flag "
                 "another thread writes once: all store/load orderings, the loop first/middle/last, writer and waiter as "
                 "main or spawned, flag set by RMW / release sequence, two waiters on different flags, the writer going on after the "
                 "flag (both take a ticket), the loop written yield-first, plus seeded random "
                 "surroundings; the run must pass and explore every exit outcome of the blocking-read reference; loops "
                 "whose condition never holds must hit the branch limit; explorer-twin correspondence incl. yield "
                 "bookkeeping; non-trivial = more than one iteration")
    ctx.witness_check()

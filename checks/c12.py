"""C12 — loom atomics compute the same values as std atomics."""
import subprocess

import lvlib
from gen import c12 as gen

THEOREMS = [
    "LoomVerif.Num.roundtrip", "LoomVerif.Num.intoU64_lt", "LoomVerif.Num.fromU64_inRange",
    "LoomVerif.RmwFn.apply_inRange", "LoomVerif.FupdFn.apply_inRange", "LoomVerif.RmwFn.apply_eq_std",
    "LoomVerif.SingleInv_spelled_out", "LoomVerif.SingleInv_creation", "LoomVerif.SingleInv_preserved",
    "LoomVerif.Atomic.single_thread_latest", "LoomVerif.Atomic.single_thread_latest_reachable",
    "LoomVerif.C12_refines_std", "LoomVerif.C12_refines_std_any_ordering", "LoomVerif.C12_op_refines_std",
]


def line_proto(cmd, programs):
    r = subprocess.run(cmd, input="\n".join(programs) + "\n", stdout=subprocess.PIPE,
                       stderr=subprocess.DEVNULL, text=True)
    out, cur = {}, None
    for l in r.stdout.split("\n"):
        if l.startswith("PROG "):
            cur = l[5:]
            out[cur] = []
        elif cur is not None and l:
            out[cur].append(l)
    return out


def run(ctx):
    ctx.prove(THEOREMS)
    ctx.build_harness()
    per_type = 400 if ctx.quick else 5000
    programs = gen.family(ctx.seed, per_type)
    ctx.cov["rule"] = ("per atomic type (12 types) seeded sequences of 1-14 operations on one cell, operands "
                       "boundary-biased (0, 1, MIN, MAX, -1, MAX-1, sign bit, alternating bits, values stored "
                       "earlier, random), every valid ordering; a case is non-trivial when it contains a "
                       "value-returning operation after a modifying one; distinct = different program text")
    ctx.assumptions.append("std::sync::atomic of the installed toolchain is the reference for the value "
                           "semantics; it is run side by side in the harness")
    impl = lvlib.run_impl(programs, max_iters=50)
    twin = lvlib.run_twin(programs, max_iters=50)
    std = line_proto([lvlib.HARNESS_BIN, "std"], programs)
    lean = line_proto([lvlib.DRIVER_BIN, "c12"], programs)
    nontrivial = 0
    by_ty = {}
    for p in programs:
        ty = p.split("ty=")[1].split(" ")[0]
        by_ty[ty] = by_ty.get(ty, 0) + 1
        ops = p.split("T0:")[1].split(";")
        mods = [i for i, o in enumerate(ops) if o.split()[0] not in ("ld", "uld")]
        if mods and len(ops) > mods[0] + 1:
            nontrivial += 1
        s = [l for l in std.get(p, []) if l.startswith("STD ")]
        ls = [l for l in lean.get(p, []) if l.startswith("STD ")]
        lm = [l for l in lean.get(p, []) if l.startswith("MODEL ")]
        valid = any(l == "DONE 1 valid" for l in lean.get(p, []))
        its, done = lvlib.iterations(impl.get(p, []))
        impl_streams = ["STD " + " ".join(e[2] for e in it["ev"]) for it in its]
        want = s[0].rsplit(" | ", 1)[0] if s else None
        fin = s[0].rsplit(" | ", 1)[1] if s else None
        problems = []
        if not s:
            problems.append("std reference produced nothing")
        if done is None or done[1] != "ok":
            problems.append(f"implementation run ended with {done}")
        for st in impl_streams:
            if st != want:
                problems.append(f"implementation returned {st[4:]!r}, std returned {want[4:] if want else None!r}")
                break
        if want and not want.endswith("v:" + str(fin)):
            problems.append("harness: final content differs from last unsync_load")
        impl_vs_std = bool(problems)
        if not valid:
            problems.append("generator produced a sequence outside AOp.valid (theorem hypothesis)")
        if ls != s:
            problems.append(f"Lean Std.run {ls} differs from std::sync::atomic {s}")
        if lm != [("MODEL " + s[0][4:])] if s else True:
            problems.append(f"Lean atomicRunAll {lm} differs from std {s}")
        if impl.get(p) != twin.get(p):
            d = lvlib.first_diff(impl.get(p, []), twin.get(p, []))
            problems.append(f"twin differs from implementation at record {d[0]}: impl {d[1][:200]!r} twin {d[2][:200]!r}")
        ctx.cov["evaluations"] += 1
        ctx.cov["traces_validated_against_impl"] += len(its)
        if problems:
            ctx.violation("c12-differential", {"problems": problems, "std": s, "lean_std": ls, "lean_model": lm,
                                               "impl": impl_streams[:3]}, found_input=impl_vs_std, program=p)
        elif len(ctx.cov["samples"]) < 4 and len(ops) > 6:
            ctx.sample({"program": p, "returns": want[4:]})
    ctx.cov["programs"] = len(programs)
    ctx.cov["distinct_nontrivial"] = nontrivial
    ctx.cov["disagreements_checked"] = len(programs)
    ctx.cov["distribution"] = {"by_type": by_ty}

"""C01 — every interleaving outcome of a concurrent program is explored."""
import lvlib
from gen import families

THEOREMS = []   # filled in below once the pillar theorems are in the tree
STATUS = {}


def run(ctx):
    ctx.prove(ctx.theorems(), {"LoomVerif.C01.C01_full_false": "refuted-full-statement",
                               "LoomVerif.C01.C01_full_false_witness": "refuted-full-statement",
                               "LoomVerif.C01.Dep.arc_inspect_dec_not_independent": "refuted-full-statement",
                               "LoomVerif.C01.Dep.tryrecv_send_not_independent": "refuted-full-statement"})
    ctx.build_harness()
    from gen import corpus
    programs = list(dict.fromkeys(corpus.corpus('C01') + families.c01_family(ctx.seed, ctx.quick)))
    cap = 3000 if ctx.quick else 20000
    ctx.cov["rule"] = ("exhaustive 2-thread (≤2 units per thread) and 3-thread (≤1 unit) programs over the kind-sets "
                       "atomic / mutex / rwlock / condvar / notify / park / channel / arc, sampled by seed to the tier's "
                       "size, plus seeded random mixed programs; every exploration is compared with the explorer twin "
                       "and its explored outcome set with the outcomes of the reference interleaving semantics "
                       "(Spec/SC.lean, enumerated by Oracle/SCEnum.lean); non-trivial = at least two threads touch a "
                       "common object and the reference has ≥ 2 outcomes or the exploration ≥ 2 iterations")
    ctx.assumptions.append("the universal quantifier over programs is covered by theorem only for the DPOR pillars "
                           "and the DFS (C14); the end-to-end inclusion is evaluated on the family (C01_partial)")
    impl, twin, dis = ctx.correspond(programs, cap, view="explore")
    differing = {d["program"] for d in dis}
    failures = ctx.sc_check(programs, impl, 60000 if ctx.quick else 400000, soundness=True, completeness=True)
    unlisted = ctx.attribute(failures, differing)
    nontrivial = 0
    dist = {}
    for p in programs:
        its, done = lvlib.iterations(impl.get(p, []))
        ctx.cov["evaluations"] += len(its)
        ctx.cov["traces_validated_against_impl"] += len(its)
        k = done[1] if done else "none"
        dist[k] = dist.get(k, 0) + 1
        if len(its) > 1:
            nontrivial += 1
        if len(its) > 2 and len(ctx.cov["samples"]) < 5:
            ctx.sample({"program": p, "iterations": len(its), "outcomes": sorted(set(lvlib.outcome_str(i) for i in its))[:4]})
    if dis and not unlisted:
        for d in dis[:3]:
            ctx.violation("correspondence", {"disagreement": d, "rests_on_it": ctx.theorems()},
                          found_input=False, program=d["program"])
    ctx.witness_check()
    ctx.cov["programs"] = len(programs)
    ctx.cov["distinct_nontrivial"] = nontrivial
    ctx.cov["distribution"] = {"result": dist, "oracle_failures": len(failures), "disagreements": len(dis)}

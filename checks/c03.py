"""C03 — every explored execution is consistent with the C11 memory model."""
from gen import litmus


def run(ctx):
    ctx.prove(ctx.theorems())
    ctx.build_harness()
    from gen import corpus
    programs = list(dict.fromkeys(corpus.corpus('C03') + litmus.family(ctx.seed ^ 3, ctx.quick)))
    ctx.assumptions.append("Spec/RC11.lean (`doc` instance: SeqCst accesses as acquire/release, SeqCst fences in psc) is "
                           "trusted as the meaning of 'C11 allows'; values stored to a location are distinct, so the "
                           "outcome determines reads-from")
    ctx.std_flow(programs, 4000 if ctx.quick else 30000, "safety",
                 lambda impl: ctx.rc11_check(programs, impl, lower=False, upper=True),
                 "the litmus family of C02 (other seed); every iteration the implementation executes must be an outcome "
                 "of RC11(doc); the decisions of every iteration are replayed on the twin when the explorations "
                 "differ; non-trivial = more than one iteration (some load had several candidates)")
    ctx.witness_check()

"""C14 — exploration terminates and never repeats an execution."""
import lvlib
from gen import progs

THEOREMS = [
    "LoomVerif.C14.step_spec", "LoomVerif.C14.step_none", "LoomVerif.C14.advance_spec",
    "LoomVerif.C14.advance_sched_leftmost", "LoomVerif.C14.frame_refl", "LoomVerif.C14.frame_trans",
    "LoomVerif.C14.branchThread_frame", "LoomVerif.C14.pushLoad_frame", "LoomVerif.C14.branchSpurious_frame",
    "LoomVerif.C14.branchLoad_frame", "LoomVerif.C14.backtrack_frame", "LoomVerif.C14.exploreState_frame",
    "LoomVerif.C14.critical_frame", "LoomVerif.C14.skipBranch_frame", "LoomVerif.C14.pushed_entries_fresh",
    "LoomVerif.C14.iteration_frame", "LoomVerif.C14.no_repeat", "LoomVerif.C14.no_repeat_general",
    "LoomVerif.C14.dfs_order", "LoomVerif.C14.measure_eq", "LoomVerif.C14.measure_spec",
    "LoomVerif.C14.terminates", "LoomVerif.C14.no_infinite_run", "LoomVerif.C14.count_is_paths",
    "LoomVerif.C14.distinctCount_spec",
]


def decision_vector(view):
    v = []
    for e in view:
        if e.startswith("L"):
            v.append(int(e.split("@")[1]))
        elif e.startswith("U"):
            v.append(int(e[1]))
        else:
            v.append(e.find("A"))
    return tuple(v)


def dfs_check(vectors):
    """no vector repeats; once the exploration leaves a prefix it never returns to it"""
    seen = set()
    closed = set()
    prev = None
    for k, v in enumerate(vectors):
        if v in seen:
            return f"iteration {k+1} repeats the decision sequence {list(v)}"
        seen.add(v)
        if prev is not None:
            m = 0
            while m < len(prev) and m < len(v) and prev[m] == v[m]:
                m += 1
            if m >= len(prev) or m >= len(v):
                return f"iteration {k+1}: decision sequence is a prefix/extension of the previous one"
            for j in range(m + 1, len(prev) + 1):
                closed.add(prev[:j])
            for j in range(m + 1, len(v) + 1):
                if v[:j] in closed:
                    return f"iteration {k+1} returns to the abandoned prefix {list(v[:j])} (not depth-first)"
        prev = v
    return None


def family(ctx):
    r = progs.Rng(ctx.seed ^ 0xC14)
    n = 600 if ctx.quick else 6000
    out = []
    for i in range(n):
        k = i % 6
        g = [progs.gen_atomic, progs.gen_sync, progs.gen_wait, progs.gen_arc, progs.gen_atomic, progs.gen_sync][k]
        out.append(g(r))
    # every branch kind must occur: spurious branches come from `nwait`
    out += ["cfg n=1 | T0: spawn 1; nnotify 0; join 1 | T1: nwait 0",
            "cfg n=1 x=1 | T0: spawn 1; st 0 1 rel; nnotify 0; join 1 | T1: nwait 0; ld 0 acq",
            "cfg x=1 | T0: spawn 1; stop; st 0 1 rlx; explore; st 0 2 rlx; join 1 | T1: ld 0 rlx; ld 0 rlx",
            # loads / RMWs / spurious waits executed while exploration is off (region, skip_branch, explicit explore):
            # their path entries are never advanced
            "cfg x=1 | T0: spawn 1; st 0 1 rlx; st 0 2 rlx; join 1 | T1: stop; ld 0 rlx; explore; ld 0 rlx",
            "cfg x=2 | T0: spawn 1; st 0 1 rlx; st 1 1 rlx; join 1 | T1: ld 1 rlx; stop; ld 0 rlx; fadd 0 1 rlx; explore; ld 1 rlx",
            "cfg x=1 | T0: spawn 1; st 0 1 rlx; st 0 2 rlx; join 1 | T1: ld 0 rlx; skip; ld 0 rlx; ld 0 rlx",
            "cfg explicit=1 x=1 | T0: spawn 1; st 0 1 rlx; st 0 2 rlx; explore; st 0 3 rlx; join 1 | T1: ld 0 rlx; ld 0 rlx",
            "cfg n=1 x=1 | T0: spawn 1; st 0 1 rlx; nnotify 0; join 1 | T1: stop; nwait 0; ld 0 rlx; explore; ld 0 rlx",
            "cfg x=1 m=1 | T0: spawn 1; lock 0; st 0 1 rlx; unlock 0; st 0 2 rlx; join 1 | T1: stop; lock 0; ld 0 rlx; unlock 0; explore; ld 0 rlx"]
    return list(dict.fromkeys(out))


def spin_family():
    """programs whose threads all terminate but wait for each other in yield loops (each spinner on its own flag, the
    setter first / last in spawn order, as main): the model must return normally (fairness of the hand-over between
    yielding threads: the thread that yielded least goes first)"""
    out = []
    for lo, so in (("acq", "rel"), ("rlx", "rlx")):
        out.append(f"cfg x=2 | T0: spawn 1; spawn 2; await 0 1 {lo}; join 1; join 2 | T1: await 1 1 {lo} | T2: st 0 1 {so}; st 1 1 {so}")
        out.append(f"cfg x=2 | T0: spawn 1; spawn 2; await 0 1 {lo}; join 1; join 2 | T1: await 1 1 {lo} | T2: st 1 1 {so}; st 0 1 {so}")
        out.append(f"cfg x=2 | T0: spawn 1; spawn 2; spawn 3; join 1; join 2; join 3 | T1: await 0 1 {lo} | T2: await 1 1 {lo} | T3: st 0 1 {so}; st 1 1 {so}")
        out.append(f"cfg x=2 | T0: spawn 1; spawn 2; spawn 3; join 1; join 2; join 3 | T1: st 0 1 {so}; st 1 1 {so} | T2: await 0 1 {lo} | T3: await 1 1 {lo}")
        out.append(f"cfg x=2 | T0: spawn 1; spawn 2; st 0 1 {so}; st 1 1 {so}; join 1; join 2 | T1: await 0 1 {lo} | T2: await 1 1 {lo}")
        out.append(f"cfg x=2 | T0: spawn 1; spawn 2; await 1 1 {lo}; join 1; join 2 | T1: await 0 1 {lo}; st 1 1 {so} | T2: st 0 1 {so}")
    return out


def run(ctx):
    ctx.prove(THEOREMS)
    ctx.build_harness()
    spins = spin_family()
    programs = list(dict.fromkeys(family(ctx) + spins))
    cap = 3000 if ctx.quick else 30000
    ctx.cov["rule"] = ("seeded programs of the atomic, lock, wait/notify/channel and Arc generators plus fixed programs "
                       "with spurious and non-exploring branches; every exploration is compared record by record with "
                       "the explorer twin (all paths, marks, clocks) and its decision sequences are checked for "
                       "repetition and depth-first order; programs with two threads waiting in yield loops at the same time must "
                       "return normally; non-trivial = more than one iteration; distinct = different "
                       "program text")
    impl, twin, dis = ctx.correspond(programs, cap, view="explore")
    nontrivial = 0
    kinds = {"sched": 0, "load": 0, "spur": 0}
    dist = {}
    failing = 0
    for p in programs:
        its, done = lvlib.iterations(impl.get(p, []))
        ctx.cov["evaluations"] += len(its)
        ctx.cov["traces_validated_against_impl"] += len(its)
        if done and done[1] == "capped":
            ctx.cov["skipped_for_size"] += 1
        dist[done[1] if done else "none"] = dist.get(done[1] if done else "none", 0) + 1
        if len(its) > 1:
            nontrivial += 1
        vecs = [decision_vector(it["view"]) for it in its if "view" in it]
        for it in its:
            for e in it.get("view", []):
                kinds["load" if e.startswith("L") else "spur" if e.startswith("U") else "sched"] += 1
        err = dfs_check(vecs)
        if err is None and done and done[1] not in ("capped",) and done[0].isdigit() and int(done[0]) != len(its):
            err = f"reported iteration count {done[0]} differs from the {len(its)} iterations seen"
        if done and done[1].startswith(("abort", "hang")) or (done and done[0] == "?"):
            err = f"exploration did not terminate normally: {done}"
        if err is None and p in spins and done and done[1] not in ("ok", "capped"):
            err = (f"every thread of the program terminates (each waits in a yield loop for a flag another thread sets "
                   f"unconditionally), but the model run ends with {done[1]} in iteration {len(its)}")
        if err:
            failing += 1
            ctx.violation("c14-oracle", {"error": err, "iterations": len(its)}, found_input=True, program=p)
        elif len(its) > 3:
            ctx.sample({"program": p, "iterations": len(its), "first_decision_vectors": [list(v) for v in vecs[:4]]})
    if dis and not failing:
        # the correspondence broke and the oracle found no failing input
        for d in dis[:3]:
            ctx.violation("correspondence", {"disagreement": d, "rests_on_it": THEOREMS}, found_input=False,
                          program=d["program"])
    ctx.cov["programs"] = len(programs)
    ctx.cov["distinct_nontrivial"] = nontrivial
    ctx.cov["distribution"] = {"result": dist, "branch_kinds": kinds, "disagreements": len(dis)}

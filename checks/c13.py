"""C13 — exploration is deterministic and resumable from a checkpoint."""
import hashlib
import os
import shutil
import subprocess

import lvlib
from gen import families, progs, litmus


def family(ctx):
    r = progs.Rng(ctx.seed ^ 0xC13)
    n = 10 if ctx.quick else 150
    out = []
    out += families.exhaustive("atomic", 2, 2, n, r.fork("a"))
    out += families.exhaustive("mutex", 2, 2, n, r.fork("m"))
    out += families.exhaustive("notify", 2, 1, n, r.fork("n"))
    out += families.exhaustive("channel", 2, 2, n, r.fork("q"))
    out += families.exhaustive("condvar", 2, 1, n, r.fork("v"))
    # failing programs (the failure is not in the first iteration)
    out += ["cfg c=1 | T0: spawn 1; cwr 0 1; join 1 | T1: crd 0",
            "cfg m=2 | T0: spawn 1; lock 0; lock 1; unlock 1; unlock 0; join 1 | T1: lock 1; lock 0; unlock 0; unlock 1",
            "cfg x=1 c=1 | T0: spawn 1; cwr 0 5; st 0 1 rlx; join 1 | T1: ld 0 acq; ifeq 1 v:1 1; crd 0"]
    # the failure is the branch limit, reached in the third iteration only (a resumed run must be held to the same limit)
    out += [f"cfg maxbr={m} x=1 | T0: spawn 1; ld 0 rlx; ifeq 1 v:1 3; ld 0 rlx; ld 0 rlx; ld 0 rlx; join 1 | T1: st 0 1 rlx"
            for m in (9, 10, 11, 12, 13)]
    # SeqCst fences (the global fence clock): a resumed run starts from a fresh execution
    out += ["cfg x=2 | T0: spawn 1; st 0 1 rlx; fence sc; ld 1 rlx; join 1 | T1: st 1 1 rlx; fence sc; ld 0 rlx",
            "cfg x=2 | T0: spawn 1; st 0 1 rlx; st 1 1 rlx; join 1; fence sc | T1: fence sc; ld 1 rlx; ld 0 rlx"]
    out += TLS
    return list(dict.fromkeys(out))


# thread-locals whose destructors perform loom operations, lazy statics: nothing may depend on the process
# (hash seeds, addresses): finding F14 (repaired)
TLS = ["cfg tlsdtor=1 x=1 | T0: spawn 1; ld 0 rlx; join 1; ld 0 rlx | T1: tls 0; tls 1",
       "cfg tlsdtor=1 x=1 | T0: spawn 1; ld 0 rlx; join 1 | T1: tls 1; tls 0",
       "cfg tlsdtor=1 x=1 | T0: tls 1; tls 0; spawn 1; join 1 | T1: ld 0 rlx; ld 0 rlx",
       "cfg x=1 | T0: spawn 1; lazy 0; lazy 1; join 1 | T1: lazy 1; lazy 0"]


def run_harness(args, programs, ckpt_dir=None):
    cmd = [lvlib.HARNESS_BIN] + args + (["--ckpt-dir", ckpt_dir] if ckpt_dir else [])
    r = subprocess.run(cmd, input="\n".join(programs) + "\n", stdout=subprocess.PIPE, stderr=subprocess.DEVNULL, text=True)
    return lvlib._split_records(r.stdout)


def digests(recs):
    its, done = lvlib.iterations(recs)
    return [(it.get("xe"), it["term"], tuple(map(tuple, it["ev"]))) for it in its], done


def with_cfg(p, **kv):
    for k, v in kv.items():
        p = p.replace("cfg ", f"cfg {k}={v} ", 1)
    return p


def run(ctx):
    ctx.prove(ctx.theorems())
    ctx.build_harness()
    base = family(ctx)
    cap = 400 if ctx.quick else 3000
    ctx.cov["rule"] = ("programs over atomics, mutexes, notify (spurious branches), channels and condvars, some of them "
                       "failing after several iterations; (1) the same run twice in one process and in a second process, "
                       "and against the explorer twin; (2) for every stop point k the run is stopped after k-1 iterations "
                       "(max_permutations=k, checkpoint_interval=1) and resumed from the file: the concatenation must equal "
                       "the uninterrupted run iteration by iteration (digest of start path, end path, threads, objects, "
                       "events); the bytes of the checkpoint file must equal the twin's Path.render; (3) the checkpoint "
                       "left by a failing run must reproduce the failure as first iteration; non-trivial = ≥ 2 iterations")
    failures = []
    # (1) determinism + twin
    impl, twin, dis = ctx.correspond(base, cap, view="explore")
    differing = {d["program"] for d in dis}
    again = run_harness(["run", "--max", str(cap)], base + base)          # twice in one process
    for p in base:
        if again.get(p) != impl.get(p):
            failures.append((p, "forbidden", "two runs of the same model differ (second process / repeated in one process)"))
    for _ in range(5):                                                    # five more processes
        more = run_harness(["run", "--max", str(cap)], TLS)
        for p in TLS:
            if more.get(p) != impl.get(p):
                failures.append((p, "forbidden", "two runs of the same model in different processes differ"))
    # (2) stop / resume at every k
    ckdir = os.path.join(lvlib.BUILD, "ckpt-" + ctx.pid)
    shutil.rmtree(ckdir, ignore_errors=True)
    os.makedirs(ckdir)
    nontrivial = 0
    resumed = 0
    full_twin = lvlib.run_twin(base, full=True, max_iters=cap)
    for p in base:
        ref, done = digests(impl.get(p, []))
        ctx.cov["evaluations"] += len(ref)
        if not done or done[1] == "capped" or len(ref) < 2:
            continue
        nontrivial += 1
        tstarts = [l[2:] for l in full_twin.get(p, []) if l.startswith("S ")]
        ks = range(2, len(ref) + 1) if len(ref) <= (12 if ctx.quick else 60) else \
            sorted(set([2, 3, len(ref) // 2, len(ref) - 1, len(ref)]))
        for k in ks:
            name = hashlib.sha1(f"{p}#{k}".encode()).hexdigest()[:16] + ".json"
            first = with_cfg(p, ckpt=name, intv=1, perm=k)
            second = with_cfg(p, ckpt=name, intv=1)
            r1 = run_harness(["run", "--max", str(cap)], [first], ckdir)
            path = os.path.join(ckdir, name)
            stored = open(path).read() if os.path.exists(path) else None
            r2 = run_harness(["run", "--max", str(cap)], [second], ckdir)
            d1, done1 = digests(r1.get(first, []))
            d2, done2 = digests(r2.get(second, []))
            resumed += 1
            ctx.cov["traces_validated_against_impl"] += len(d1) + len(d2)
            failing_early = done[1] != "ok" and len(ref) < k
            if d1 != ref[:k - 1] and not failing_early:
                failures.append((first, "forbidden", f"stopped run differs from the first {k-1} iterations of the uninterrupted run"))
            elif stored is None:
                failures.append((first, "forbidden", "no checkpoint file was written"))
            elif k - 1 < len(tstarts) and stored != tstarts[k - 1]:
                failures.append((first, "forbidden", f"checkpoint bytes differ from the twin's encoding of the path before iteration {k}"))
            elif d1 + d2 != ref or (done2 and done2[1] != done[1]):
                failures.append((second, "forbidden", f"run resumed from the checkpoint stored before iteration {k} does not "
                                 f"continue the uninterrupted run ({len(d1)}+{len(d2)} vs {len(ref)} iterations)"))
            if os.path.exists(path):
                os.remove(path)
        # (3) failing checkpoint
        if done[1] not in ("ok", "capped"):
            name = hashlib.sha1(f"{p}#fail".encode()).hexdigest()[:16] + ".json"
            q = with_cfg(p, ckpt=name, intv=1)
            run_harness(["run", "--max", str(cap)], [q], ckdir)
            r2 = run_harness(["run", "--max", str(cap)], [q], ckdir)
            d2, done2 = digests(r2.get(q, []))
            if not d2 or d2[0][1:] != ref[-1][1:] or len(d2) != 1:
                failures.append((q, "forbidden", "the checkpoint of the failing iteration does not reproduce the failure "
                                 "as the first iteration after loading"))
            if len(ctx.cov["samples"]) < 3:
                ctx.sample({"program": p, "fails_in_iteration": len(ref), "with": done[1], "reproduced_from_checkpoint": bool(d2)})
    shutil.rmtree(ckdir, ignore_errors=True)
    unlisted = ctx.attribute(failures, differing)
    if dis and not unlisted:
        for d in dis[:3]:
            ctx.violation("correspondence", {"disagreement": d, "rests_on_it": ctx.theorems()}, found_input=False,
                          program=d["program"])
    ctx.cov["programs"] = len(base)
    ctx.cov["distinct_nontrivial"] = nontrivial
    ctx.cov["distribution"] = {"stop_resume_runs": resumed, "oracle_failures": len(failures), "disagreements": len(dis)}
    if not ctx.cov["samples"]:
        ctx.sample({"program": base[0]})

"""C17 — thread_local! and lazy_static! keep per-thread / per-execution semantics."""
import subprocess

import lvlib
from checks import findings as F
from gen import c17c20


def run(ctx):
    ctx.prove(ctx.theorems())
    ctx.build_harness()
    programs = c17c20.c17_family(ctx.seed, ctx.quick)
    ctx.assumptions.append("instance ids, init/drop counters and destructor observations are harness state (std cells); "
                           "the thread-local and lazy values are the harness' TlsVal / LazyVal (a lazy value carries a "
                           "loom UnsafeCell written by the initialiser, so a missing init→access edge is a race report)")

    def failures(impl):
        f = ctx.sc_check(programs, impl, 60000 if ctx.quick else 400000)
        # the reference destroys a thread's thread-locals in any order, the property fixes none: when the order
        # is observable (destructors that store, two keys in one thread) the implementation need not show all
        two_keys = lambda p: "tlsdtor=1" in p and any(  # noqa: E731
            {"0", "1"} <= {x for o in ops if o[0].startswith("tls") for x in o[1:]} for ops in F.threads_of(p))
        dropped = [x for x in f if x[1] == "missing" and two_keys(x[0])]
        ctx.cov["order_dependent_outcomes_not_demanded"] = len(dropped)
        f = [x for x in f if x not in dropped]
        # two thread-locals whose destructors perform loom operations: the order (and with it the
        # exploration) must not depend on the process (F14, repaired: it depended on a HashMap's RandomState)
        w = "cfg tlsdtor=1 x=1 | T0: spawn 1; ld 0 rlx; join 1; ld 0 rlx | T1: tls 0; tls 1"
        runs = []
        for _ in range(6):
            r = subprocess.run([lvlib.HARNESS_BIN, "run", "--max", "2000"], input=w + "\n", stdout=subprocess.PIPE,
                               stderr=subprocess.DEVNULL, text=True)
            runs.append(r.stdout)
        if len(set(runs)) > 1:
            f.append((w, "nondeterministic", "the same model explored differently in different processes"))
        ctx.cov["f14_probe_runs"] = len(runs)
        return f

    ctx.std_flow(programs, 3000 if ctx.quick else 30000, "safety", failures,
                 "1-3 threads touching 1-2 thread-locals in every order (with, try_with, nested with, repeated access), "
                 "with destructors that do nothing / touch the other thread-local / perform a loom store; init and drop "
                 "counters and instance ids read after the joins; 1-3 threads racing on the first access of 1-2 lazy "
                 "statics whose value carries an UnsafeCell; a thread outliving the main closure; outcomes must equal "
                 "the reference (Spec/SC.lean: lazily once per thread, private, dropped at thread end; once per "
                 "execution, init happens-before access); decision replay on the twin; non-trivial = ≥ 2 threads")
    ctx.witness_check()

-- Design-time calibration spike for C14 (not part of any build): compiled with Lean 4.33.0,
-- core only.  See DESIGN.md, Appendix A.
namespace Dfs

/-- abstract DFS stack entry: current decision, exhausted decisions, pending alternatives -/
structure E where
  dec : Nat
  tried : List Nat
  pend : List Nat
  expl : Bool
deriving Repr, DecidableEq

def E.Fresh (e : E) : Prop :=
  e.dec ∉ e.tried ∧ e.pend.Nodup ∧ ∀ a ∈ e.pend, a ≠ e.dec ∧ a ∉ e.tried

def E.advance (e : E) (a : Nat) (ps : List Nat) : E :=
  { e with dec := a, tried := e.dec :: e.tried, pend := ps }

/-- step on the reversed stack (deepest entry first) -/
def stepR : List E → Option (List E)
  | [] => none
  | e :: rest =>
    if e.expl then
      match e.pend with
      | a :: ps => some (e.advance a ps :: rest)
      | [] => stepR rest
    else stepR rest

/-- step on the root-first stack -/
def step (s : List E) : Option (List E) := (stepR s.reverse).map List.reverse

def D (s : List E) : List Nat := s.map (·.dec)

/-- `h` (an earlier decision vector) is excluded by stack `s` -/
def Covered (h : List Nat) (s : List E) : Prop :=
  ∃ k, ∃ hk : k < s.length, (∀ i, i < k → h[i]? = (D s)[i]?) ∧ ∃ d, h[k]? = some d ∧ d ∈ (s[k]).tried

theorem step_shape {s s' : List E} (h : step s = some s') :
    ∃ pre e suf a ps, s = pre ++ e :: suf ∧ e.expl = true ∧ e.pend = a :: ps ∧
      s' = pre ++ [e.advance a ps] := by
  unfold step at h
  generalize hr : s.reverse = r at h
  have hs : s = r.reverse := by rw [← hr, List.reverse_reverse]
  subst hs
  clear hr
  induction r generalizing s' with
  | nil => simp [stepR] at h
  | cons e rest ih =>
    simp only [stepR] at h
    by_cases he : e.expl = true
    · simp only [he, if_true] at h
      cases hp : e.pend with
      | nil =>
        simp only [hp] at h
        obtain ⟨pre, e0, suf, a, ps, h1, h2, h3, h4⟩ := ih h
        refine ⟨pre, e0, suf ++ [e], a, ps, ?_, h2, h3, h4⟩
        simp [List.reverse_cons, h1]
      | cons a ps =>
        simp only [hp, Option.map_some, Option.some.injEq] at h
        refine ⟨rest.reverse, e, [], a, ps, ?_, he, hp, ?_⟩
        · simp
        · rw [← h]; simp
    · simp only [he] at h
      obtain ⟨pre, e0, suf, a, ps, h1, h2, h3, h4⟩ := ih (by simpa using h)
      refine ⟨pre, e0, suf ++ [e], a, ps, ?_, h2, h3, h4⟩
      simp [List.reverse_cons, h1]

theorem covered_ne {h : List Nat} {s : List E} (hc : Covered h s)
    (hf : ∀ e ∈ s, e.dec ∉ e.tried) : h ≠ D s := by
  rintro rfl
  obtain ⟨k, hk, _, d, hd, hmem⟩ := hc
  have : (D s)[k]? = some (s[k]).dec := by simp [D, hk]
  rw [this] at hd
  cases hd
  exact hf _ (List.getElem_mem hk) hmem

end Dfs

namespace Dfs

/-- prefix-preserving extension performed by one iteration (run phase) -/
structure Run (s q : List E) : Prop where
  len : s.length ≤ q.length
  dec : ∀ i (h : i < s.length), (q[i]'(by omega)).dec = (s[i]).dec
  tried : ∀ i (h : i < s.length), (q[i]'(by omega)).tried = (s[i]).tried

theorem D_getElem? (s : List E) (i : Nat) : (D s)[i]? = (s[i]?).map (·.dec) := by
  simp [D]

theorem covered_run {h : List Nat} {s q : List E} (hc : Covered h s) (hr : Run s q) :
    Covered h q := by
  obtain ⟨k, hk, hpre, d, hd, hmem⟩ := hc
  refine ⟨k, by have := hr.len; omega, ?_, d, hd, ?_⟩
  · intro i hi
    rw [hpre i hi, D_getElem?, D_getElem?]
    have h1 : i < s.length := by omega
    have h2 : i < q.length := by have := hr.len; omega
    simp [h1, h2, hr.dec i h1]
  · rw [hr.tried k hk]; exact hmem

theorem covered_step {h : List Nat} {s s' : List E} (hc : Covered h s ∨ h = D s)
    (hs : step s = some s') : Covered h s' := by
  obtain ⟨pre, e, suf, a, ps, rfl, _, _, rfl⟩ := step_shape hs
  have key : ∀ i, i < pre.length → (D (pre ++ e :: suf))[i]? = (D (pre ++ [e.advance a ps]))[i]? := by
    intro i hi; simp [D, List.getElem?_append_left, hi]
  have hm : pre.length < (pre ++ [e.advance a ps]).length := by simp
  have hat : (pre ++ [e.advance a ps])[pre.length]'hm = e.advance a ps := by simp
  -- the finishing move: h agrees with the old stack up to and including position |pre|
  have finish : (∀ i, i ≤ pre.length → h[i]? = (D (pre ++ e :: suf))[i]?) → Covered h (pre ++ [e.advance a ps]) := by
    intro hag
    refine ⟨pre.length, hm, ?_, e.dec, ?_, ?_⟩
    · intro i hi; rw [hag i (by omega), key i hi]
    · rw [hag _ (Nat.le_refl _)]; simp [D]
    · rw [hat]; simp [E.advance]
  rcases hc with hc | rfl
  · obtain ⟨k, hk, hpre, d, hd, hmem⟩ := hc
    by_cases hlt : k < pre.length
    · refine ⟨k, by simp; omega, ?_, d, hd, ?_⟩
      · intro i hi; rw [hpre i hi, key i (by omega)]
      · simpa [List.getElem_append_left, hlt] using hmem
    · by_cases heq : k = pre.length
      · subst heq
        refine ⟨pre.length, hm, ?_, d, hd, ?_⟩
        · intro i hi; rw [hpre i hi, key i hi]
        · rw [hat]; simp only [E.advance]
          have : d ∈ e.tried := by simpa using hmem
          exact List.mem_cons_of_mem _ this
      · apply finish
        intro i hi; exact hpre i (by omega)
  · exact finish (fun _ _ => rfl)

end Dfs

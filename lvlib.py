"""Shared machinery of the checks: building, running implementation and twin, diffing.

No third-party packages.  Everything lives under /verif; scratch output goes to /verif/.build.
"""
import json
import os
import subprocess
import zlib
import sys
import time
from concurrent.futures import ThreadPoolExecutor

VERIF = os.path.dirname(os.path.abspath(__file__))
BUILD = os.path.join(VERIF, ".build")
HARNESS_DIR = os.path.join(VERIF, "harness")
HARNESS_BIN = os.path.join(BUILD, "harness-target", "release", "lv-harness")
LEAN_DIR = os.path.join(VERIF, "lean")
DRIVER_BIN = os.path.join(LEAN_DIR, ".lake", "build", "bin", "lvdriver")
NPROC = max(1, min(16, os.cpu_count() or 1))


def log(*a):
    print(*a, file=sys.stderr, flush=True)


# ----------------------------------------------------------------------------- building

def build_harness():
    """(re)build the harness against /repo's current working tree, hooks on"""
    env = dict(os.environ, CARGO_NET_OFFLINE="true", CARGO_TARGET_DIR=os.path.join(BUILD, "harness-target"))
    r = subprocess.run(["cargo", "build", "--release", "--offline"], cwd=HARNESS_DIR, env=env,
                       stdout=subprocess.PIPE, stderr=subprocess.STDOUT, text=True)
    if r.returncode != 0:
        raise BuildError("harness build failed (does /repo still compile with --features "
                         "verif-hooks,checkpoint,futures?)\n" + r.stdout[-4000:])


def build_lean(targets):
    r = subprocess.run(["lake", "build"] + list(targets), cwd=LEAN_DIR,
                       stdout=subprocess.PIPE, stderr=subprocess.STDOUT, text=True)
    if r.returncode != 0:
        raise BuildError("lake build failed\n" + r.stdout[-4000:])


class BuildError(Exception):
    pass


# ----------------------------------------------------------------------------- running

def _split_records(text):
    """split the output of a run into {program line: [record lines]} in order"""
    out = {}
    cur = None
    for line in text.split("\n"):
        if line.startswith("PROG "):
            cur = line[5:]
            out[cur] = []
        elif line.startswith("BEGIN "):
            continue
        elif cur is not None and line:
            out[cur].append(line)
    return out


def _run_chunk(cmd, programs, timeout):
    """run `cmd` on a chunk of programs; a dead or hung process is attributed to the program it
    was running, the rest of the chunk is resumed in a fresh process"""
    results = {}
    todo = list(programs)
    while todo:
        inp = "\n".join(todo) + "\n"
        try:
            r = subprocess.run(cmd, input=inp, stdout=subprocess.PIPE, stderr=subprocess.DEVNULL,
                               text=True, timeout=timeout)
            text, rc, hung = r.stdout, r.returncode, False
        except subprocess.TimeoutExpired as e:
            text = e.stdout.decode() if isinstance(e.stdout, bytes) else (e.stdout or "")
            rc, hung = -9, True
        recs = _split_records(text)
        done = [p for p in todo if p in recs and recs[p] and recs[p][-1].startswith("DONE ")]
        for p in done:
            results[p] = recs[p]
        if len(done) == len(todo):
            break
        # first program without a DONE line is the culprit
        culprit = next(p for p in todo if p not in results)
        partial = recs.get(culprit, [])
        results[culprit] = partial + ["DONE ? " + ("hang" if hung else "abort(rc=%d)" % rc)]
        todo = [p for p in todo if p not in results]
    return results


class Packed(dict):
    """{program: record lines} with the lines kept zlib-compressed (explorations of the thorough tier run to tens of
    millions of record lines); reading an entry decompresses it"""

    def put(self, k, lines):
        dict.__setitem__(self, k, zlib.compress("\n".join(lines).encode(), 1))

    def __getitem__(self, k):
        b = dict.__getitem__(self, k)
        t = zlib.decompress(b).decode()
        return t.split("\n") if t else []

    def get(self, k, default=None):
        return self[k] if k in self else default

    def items(self):
        return ((k, self[k]) for k in self.keys())

    def values(self):
        return (self[k] for k in self.keys())


def run_many(cmd, programs, timeout=300, chunk=None, per_program=0.0):
    """run programs through `cmd` (a line-protocol process) on all cores; a chunk may take `timeout` seconds plus
    `per_program` seconds for each of its programs (a process that exceeds that is reported as hung)"""
    programs = list(dict.fromkeys(programs))
    if not programs:
        return {}
    n = chunk or max(1, (len(programs) + NPROC * 4 - 1) // (NPROC * 4))
    chunks = [programs[i:i + n] for i in range(0, len(programs), n)]
    results = Packed()
    with ThreadPoolExecutor(max_workers=NPROC) as ex:
        for r in ex.map(lambda c: _run_chunk(cmd, c, timeout + per_program * len(c)), chunks):
            for k, v in r.items():
                results.put(k, v)
    return results


def run_impl(programs, full=False, starts=False, max_iters=200000, timeout=300):
    cmd = [HARNESS_BIN, "run", "--max", str(max_iters)] + (["--full"] if full else []) + \
        (["--starts"] if starts else [])
    # (an exploration capped at max_iters iterations gets time in proportion: a long exploration is not a hang)
    return run_many(cmd, programs, timeout, per_program=max_iters / 1500.0)


def run_twin(programs, full=False, starts=False, max_iters=200000, timeout=300):
    cmd = [DRIVER_BIN, "explore", "--max", str(max_iters)] + (["--full"] if full else []) + \
        (["--starts"] if starts else [])
    return run_many(cmd, programs, timeout, per_program=max_iters / 1500.0)


# ----------------------------------------------------------------------------- records

def iterations(recs):
    """split record lines of one program into iterations: list of dicts"""
    its = []
    cur = None
    done = None
    for l in recs:
        if l.startswith("IT "):
            cur = {"idx": int(l[3:]), "ev": [], "term": None, "lines": []}
            its.append(cur)
        elif l.startswith("DONE "):
            done = l[5:].split(" ", 1)
        elif cur is not None:
            cur["lines"].append(l)
            if l.startswith("E "):
                cur["ev"].append(l[2:].split(" "))
            elif l.startswith("T "):
                cur["term"] = l[2:]
            elif l.startswith("V "):
                cur["view"] = l[2:].split(" ") if len(l) > 2 else []
            elif l.startswith("XS "):
                cur["xs"] = l[3:]
            elif l.startswith("XE "):
                cur["xe"] = l[3:]
            elif l.startswith("S "):
                cur["start"] = l[2:]
    return its, done


def outcome_of(it):
    """the observable result of an iteration: per-thread list of (pc, ret), or the panic class"""
    if it["term"] != "ok":
        return ("panic", it["term"])
    per = {}
    for tid, pc, ret, _c in it["ev"]:
        per.setdefault(int(tid), []).append((int(pc), ret))
    return ("ok", tuple(sorted((t, tuple(sorted(v))) for t, v in per.items())))


def run_sc(programs, max_states=200000, timeout=600):
    """reference outcomes (Spec/SC.lean) of every program: {prog: (set of outcome strings, capped)}"""
    recs = run_many([DRIVER_BIN, "sc", str(max_states)], programs, timeout)
    out = {}
    for p, lines in recs.items():
        outs = set(l[4:] for l in lines if l.startswith("OUT "))
        done = [l for l in lines if l.startswith("DONE ")]
        capped = not done or not done[-1].endswith(" ok")
        states = int(done[-1].split()[1]) if done and done[-1].split()[1].isdigit() else 0
        out[p] = (outs, capped, states)
    return out


def run_rc11(programs, mode, max_states=30000, max_graphs=6000, timeout=900):
    """RC11 outcomes (Spec/RC11.lean; mode strong|doc): {prog: (set of outcome strings, status)}"""
    recs = run_many([DRIVER_BIN, "rc11", mode, str(max_states), str(max_graphs)], programs, timeout)
    out = {}
    for p, lines in recs.items():
        outs = set(l[4:] for l in lines if l.startswith("OUT "))
        done = [l for l in lines if l.startswith("DONE ")]
        status = done[-1].split()[-1] if done else "abort"
        graphs = int(done[-1].split()[2]) if done and done[-1].split()[2].isdigit() else 0
        out[p] = (outs, status, graphs)
    return out


def verdict_class(term):
    if term.startswith("leak"):
        return "leak"
    if term == "cellBusy":
        # "currently reading from / writing to cell": loom's report of an access that overlaps an open section
        return "causality:busy"
    return term


def outcome_str_rc11(it):
    """as outcome_str, but a causality panic is just `causality` (no partial returns)"""
    if it["term"].startswith("causality"):
        return "causality"
    return outcome_str(it)


def outcome_str(it):
    """an implementation iteration in the outcome format of the reference oracle"""
    rets = sorted((int(t), int(pc), r) for t, pc, r, _c in it["ev"])
    return " ".join([verdict_class(it["term"])] + [f"{t}:{pc}={r}" for t, pc, r in rets])


def first_diff(a, b):
    """index and the two lines at the first difference of two record lists"""
    for i, (x, y) in enumerate(zip(a, b)):
        if x != y:
            return i, x, y
    if len(a) != len(b):
        i = min(len(a), len(b))
        return i, (a[i] if i < len(a) else "<end>"), (b[i] if i < len(b) else "<end>")
    return None


def write_json(path, obj):
    os.makedirs(os.path.dirname(path), exist_ok=True)
    tmp = path + ".tmp"
    with open(tmp, "w") as f:
        json.dump(obj, f, indent=1)
    os.replace(tmp, path)


class Timer:
    def __init__(self):
        self.t0 = time.time()

    def s(self):
        return round(time.time() - self.t0, 2)
